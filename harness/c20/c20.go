// Package c20 decides property C20: `platypus run` reports the point exactly
// as the script left it - identical to what the library API yields for the
// same script and input - and reports load/run errors instead of output.
//
// Thin fit for simulation: the CLI is a process that reads a directory, two
// files and the wall clock. The simulator owns the clock (VERIF_SIM_CLOCK read
// by the instrumented time.Now), the zone (TZ) and the file system content
// including file faults.
package c20

import (
	"bytes"
	"encoding/json"
	"fmt"
	"os"
	"os/exec"
	"path/filepath"
	"sort"
	"strings"
	"syscall"
	"time"
	_ "time/tzdata"

	platypus "github.com/GuanceCloud/platypus/internal/cmd/platypus"
	"github.com/GuanceCloud/platypus/internal/simrt"
	"github.com/GuanceCloud/platypus/internal/verifsim/core"
	"github.com/GuanceCloud/platypus/internal/verifsim/corpus"
	"github.com/GuanceCloud/platypus/internal/verifsim/plenv"
	"github.com/GuanceCloud/platypus/pkg/engine"
	"github.com/GuanceCloud/platypus/pkg/inimpl/guancecloud/funcs"
	"github.com/GuanceCloud/platypus/pkg/inimpl/guancecloud/input"
	"github.com/influxdata/influxdb1-client/models"
	influxdb "github.com/influxdata/influxdb1-client/v2"
)

type File struct {
	Name    string `json:"name"`
	Kind    string `json:"kind"` // file, dir, dangling (symlink to nothing), link (symlink to a regular file outside the workspace)
	Content string `json:"content,omitempty"`
}

type Workload struct {
	Files      []File `json:"files"`       // workspace directory content
	Script     string `json:"script"`      // script selected by name
	Mode       string `json:"mode"`        // workspace | single (cwd, bare name) | single_path (absolute path)
	InputType  string `json:"input_type"`  // text | lineprotocol
	InputFault string `json:"input_fault"` // "", none (no -i), missing, dir, dangling
	InputData  string `json:"input_data"`
	OutType    string `json:"out_type"` // json | lineprotocol
	Zone       string `json:"zone"`
	ClockNanos int64  `json:"clock_nanos"`
	// InProcess: drive the command tree (cobra flags -> run.Run) inside the harness
	// process under the simulated clock, capturing file descriptor 1; otherwise the
	// built binary is exec'ed (its clock reads VERIF_SIM_CLOCK).
	InProcess bool `json:"in_process,omitempty"`
	// CwdOther: the command is started from another directory than the workspace (workspace mode
	// only); CwdFiles are placed there (e.g. a file named like the selected script)
	CwdOther bool   `json:"cwd_other,omitempty"`
	CwdFiles []File `json:"cwd_files,omitempty"`
}

type Prop struct{}

func (Prop) ID() string { return "C20" }
func (Prop) Size(tier string) int {
	if tier == "thorough" {
		return 800000
	}
	return 30000
}
func (Prop) FreshProcessShrink() bool { return false }
func (Prop) Rule() string {
	return "plan = workspace directory (1-4 scripts .p/.ppl that change measurement, time via default_time, tags, fields, and use() siblings; keys with names that mean something elsewhere such as time/name/status; script files that are symbolic links; CR LF files, multi-line literals; decoy files with other extensions, a sub-directory, sometimes a dangling symlink) x selected script x mode {workspace, single file by bare name, single file by path} x input {text, line protocol with/without timestamp, several points} x output {json, lineprotocol} x simulated wall-clock instant and TZ x file faults {no -i, input missing, directory for file, dangling symlink, empty input, selected script unparsable / check-failing / linked to a broken or missing sibling}; evaluation = one CLI process run against its library reference; non-trivial = the CLI produced an output block that was compared, or a fault run was checked for the absence of one; distinct = hash of the workload"
}
func (Prop) Assumptions() []string {
	return []string{
		"the reference is the library API driven by the harness: the script set is computed from the known workspace content (regular top-level files with extension .p or .ppl), loaded with engine.ParseScript and the real function tables, run on a point built like the documented input contract, rendered with the same encoders",
		"zap's own timestamps and caller paths precede the marker line and are not compared",
		"permission errors and short reads cannot be injected (root sandbox, os.ReadFile has no seam)",
	}
}

var zones = corpus.Zones

func genScript(r *simrt.RNG, id int, siblings []string) string {
	var b strings.Builder
	for i, n := 0, 1+r.Intn(3); i < n; i++ {
		switch r.Intn(10) {
		case 9:
			// keys whose names mean something elsewhere in the pipeline (collector conventions, point
			// attributes, line-protocol vocabulary): for the command they are ordinary keys
			k := specialKeys[r.Intn(len(specialKeys))]
			switch r.Intn(4) {
			case 0:
				fmt.Fprintf(&b, "add_key(%s, %d)\n", k, []int64{1500000000000000000, 0, 1700000000, -1}[r.Intn(4)])
			case 1:
				fmt.Fprintf(&b, "add_key(%s, %q)\n", k, []string{"2024-01-02 03:04:05", "x", ""}[r.Intn(3)])
			case 2:
				fmt.Fprintf(&b, "set_tag(%s, \"sv\")\n", k)
			default:
				fmt.Fprintf(&b, "grok(_, \"%%{WORD:w} %%{NUMBER:%s}\")\ncast(%s, \"int\")\n", k, k)
			}
		case 0:
			fmt.Fprintf(&b, "set_measurement(%q)\n", []string{"mm", "other", ""}[r.Intn(3)])
		case 1:
			b.WriteString("add_key(nm, \"from_field\")\nset_measurement(nm, true)\n")
		case 2:
			fmt.Fprintf(&b, "add_key(ts, %q)\ndefault_time(ts%s)\n", corpus.Stamps[r.Intn(len(corpus.Stamps))], []string{"", `, "Asia/Shanghai"`, `, "+0"`}[r.Intn(3)])
		case 3:
			fmt.Fprintf(&b, "set_tag(tg%d, %q)\n", r.Intn(2), []string{"x", "", "a b"}[r.Intn(3)])
		case 4:
			b.WriteString("set_tag(message)\n")
		case 5:
			if len(siblings) > 0 {
				fmt.Fprintf(&b, "use(%q)\n", siblings[r.Intn(len(siblings))])
			} else {
				fmt.Fprintf(&b, "add_key(k%d, %d)\n", id, r.Intn(100))
			}
		case 6:
			b.WriteString(corpus.GenScript(r, id))
		case 7:
			b.WriteString("drop_key(message)\nadd_key(f, 1.5)\nadd_key(b, true)\nadd_key(n, nil)\n")
		case 8:
			b.WriteString("rename(msg2, message)\ncast(usage, \"int\")\n")
		}
	}
	return b.String()
}

// specialKeys are key names with a meaning elsewhere (the collector's time key, point attributes,
// categories, line-protocol words); `platypus run` must treat them like any other key.
var specialKeys = []string{"time", "name", "measurement", "tags", "fields", "status", "source", "service", "category", "drop", "timestamp", "host", "message_length", "_"}

func lpLine(r *simrt.RNG, i int, withTime bool) string {
	tags := map[string]string{}
	if r.Intn(2) == 0 {
		tags["host"] = fmt.Sprintf("h%d", i)
	}
	if r.Intn(3) == 0 {
		tags["t1"] = "tv"
	}
	fields := map[string]interface{}{"usage": 0.5 + float64(i), "n": int64(r.Intn(50))}
	if r.Intn(2) == 0 {
		fields["message"] = "hello 42"
	}
	if r.Intn(3) == 0 {
		fields["ok"] = true
	}
	if r.Intn(4) == 0 {
		// string values with escaped quotes, raw newlines, commas, equals signs and backslashes
		fields["note"] = []string{"size 5\" x 7\nsecond line", "a=b,c d", "back\\slash \"q\"", "\"\"\"\nx", "tab\there"}[r.Intn(5)]
	}
	if r.Intn(8) == 0 {
		k := specialKeys[r.Intn(len(specialKeys)-1)]
		switch r.Intn(3) {
		case 0:
			fields[k] = []int64{1500000000000000000, 1700000000, 0}[r.Intn(3)]
		case 1:
			fields[k] = "sv"
		default:
			if _, dup := fields[k]; !dup {
				tags[k] = "tv"
			}
		}
	}
	if r.Intn(6) == 0 {
		tags["path"] = []string{"a b", "x=y", "c,d", "e\\f"}[r.Intn(4)]
	}
	pt, err := influxdb.NewPoint(fmt.Sprintf("cpu%d", i), tags, fields, time.Unix(1700000000+int64(r.Intn(100000)), int64(r.Intn(1000))))
	if err != nil {
		return "cpu usage=1"
	}
	s := pt.String()
	if !withTime {
		if k := strings.LastIndex(s, " "); k > 0 {
			s = s[:k]
		}
	}
	return s
}

func (Prop) Generate(seed uint64, tier string) *core.Plan {
	r := simrt.NewRNG(seed)
	w := Workload{Zone: zones[r.Intn(len(zones))]}
	w.ClockNanos = 1709641845000000000 + int64(r.Intn(400))*86400e9 + int64(r.Intn(1e9))
	if r.Intn(5) == 0 {
		// the wall clock itself inside a repeated or skipped local hour
		w.ClockNanos = corpus.EdgeInstants[r.Intn(len(corpus.EdgeInstants))]*1e9 + int64(r.Intn(1e9))
	}
	n := 1 + r.Intn(4)
	names := make([]string, n)
	for i := range names {
		ext := ".p"
		if r.Intn(3) == 0 {
			ext = ".ppl"
		}
		names[i] = fmt.Sprintf("s%d%s", i, ext)
	}
	for i := n - 1; i >= 0; i-- {
		body := genScript(r, i, names[i+1:])
		switch r.Intn(40) {
		case 0:
			body += "a = = 1\n"
		case 1:
			body += "no_such_function(1)\n"
		case 2:
			body += "use(\"missing.p\")\n"
		}
		switch r.Intn(10) {
		case 0:
			// literals that span physical lines: their line ends are data
			body += fmt.Sprintf("add_key(ml%d, \"\"\"alpha\nbeta\"\"\")\n", i)
		case 1:
			body += fmt.Sprintf("add_key(rw%d, `gamma\n\tdelta`)\n", i)
		}
		content := corpus.Layout(r, body)
		if r.Intn(6) == 0 {
			// a file written on another platform: CR LF line ends (blank space between statements)
			content = strings.ReplaceAll(content, "\n", "\r\n")
		}
		kind := "file"
		if r.Intn(8) == 0 {
			kind = "link" // a script shared between workspaces: a symbolic link to a regular file elsewhere
		}
		w.Files = append(w.Files, File{Name: names[i], Kind: kind, Content: content})
	}
	// decoys
	if r.Intn(2) == 0 {
		w.Files = append(w.Files, File{Name: "notes.txt", Kind: "file", Content: "a = = 1\n"})
	}
	if r.Intn(3) == 0 {
		w.Files = append(w.Files, File{Name: "s0.p.bak", Kind: "file", Content: "set_measurement(\"decoy\")\n"})
	}
	if r.Intn(3) == 0 {
		w.Files = append(w.Files, File{Name: "sub.p", Kind: "dir"})
	}
	if r.Intn(25) == 0 {
		w.Files = append(w.Files, File{Name: "zz.p", Kind: "dangling"})
	}
	if r.Intn(4) == 0 {
		// scripts inside a sub-directory are not part of the workspace: same names as workspace
		// scripts (would shadow them), or a name that exists only down there
		sub := []string{"old", "a_backup", "zzz"}[r.Intn(3)]
		w.Files = append(w.Files, File{Name: sub + "/" + names[r.Intn(n)], Kind: "file", Content: "set_measurement(\"from_subdir\")\nadd_key(subdir, 1)\n"})
		if r.Intn(2) == 0 {
			w.Files = append(w.Files, File{Name: sub + "/only_here.p", Kind: "file", Content: "add_key(subdir, 2)\n"})
		}
	}
	w.Script = names[r.Intn(n)]
	if r.Intn(30) == 0 {
		w.Script = "nope.p"
	}
	if r.Intn(40) == 0 {
		w.Script = "only_here.p"
	}
	w.Mode = []string{"workspace", "workspace", "single", "single_path"}[r.Intn(4)]
	w.OutType = []string{"json", "lineprotocol"}[r.Intn(2)]
	if r.Intn(2) == 0 {
		w.InputType = "text"
		w.InputData = corpus.Messages[r.Intn(len(corpus.Messages))]
	} else {
		w.InputType = "lineprotocol"
		nl := 1 + r.Intn(3)
		var ls []string
		for i := 0; i < nl; i++ {
			ls = append(ls, lpLine(r, i, r.Intn(3) != 0))
		}
		w.InputData = strings.Join(ls, "\n") + "\n"
		if r.Intn(20) == 0 {
			w.InputData = ""
		}
		if r.Intn(30) == 0 {
			w.InputData = "this is not line protocol\n"
		}
	}
	if r.Intn(40) == 0 {
		w.InputType = "csv" // not a supported input type: must be reported
	}
	switch r.Intn(28) {
	case 0:
		w.InputFault = "none"
	case 1:
		w.InputFault = "missing"
	case 2:
		w.InputFault = "dir"
	case 3:
		w.InputFault = "dangling"
	}
	if w.Mode == "workspace" && r.Intn(4) == 0 {
		w.CwdOther = true
		if r.Intn(2) == 0 {
			w.CwdFiles = append(w.CwdFiles, File{Name: w.Script, Kind: "file", Content: "set_measurement(\"from_cwd\")\nadd_key(cwd, 1)\n"})
		}
		if r.Intn(3) == 0 {
			w.CwdFiles = append(w.CwdFiles, File{Name: "other.p", Kind: "file", Content: "a = = 1\n"})
		}
	}
	w.InProcess = r.Intn(20) != 0
	p := &core.Plan{Property: "C20", Version: core.HarnessVersion, Seed: seed, Tier: tier, ChooserSeed: simrt.Mix(seed, 20),
		Rates: simrt.Rates{Recycle: 0.8, Purge: 0.02, Shuffle: 0.5}}
	p.SetWorkload(&w)
	return p
}

// ---------------------------------------------------------------------------

type expectation struct {
	output  bool   // an output block is expected
	payload string // its text
	why     string // why no output is expected
}

func isScriptName(n string) bool {
	return filepath.Ext(n) == ".p" || filepath.Ext(n) == ".ppl"
}

// reference computes what the library API yields.
func reference(w *Workload, loc *time.Location) expectation {
	instant := time.Unix(0, w.ClockNanos)
	set := map[string]string{}
	switch w.Mode {
	case "workspace":
		for _, f := range w.Files {
			if f.Kind == "dir" || !isScriptName(f.Name) || strings.Contains(f.Name, "/") {
				continue
			}
			if f.Kind == "dangling" {
				return expectation{why: "a script file of the workspace cannot be read"}
			}
			set[f.Name] = f.Content
		}
	default:
		found := false
		for _, f := range w.Files {
			if f.Name == w.Script && (f.Kind == "file" || f.Kind == "link") {
				set[f.Name] = f.Content
				found = true
			}
		}
		if !found {
			return expectation{why: "the selected script file does not exist"}
		}
	}
	okM, errM := engine.ParseScript(set, funcs.FuncsMap, funcs.FuncsCheckMap)
	sc, ok := okM[w.Script]
	if !ok {
		return expectation{why: fmt.Sprintf("the selected script is not loadable: %v", errM[w.Script])}
	}
	switch w.InputFault {
	case "none":
		return expectation{why: "no input file: load and check only"}
	case "missing", "dir", "dangling":
		return expectation{why: "the input file cannot be read"}
	}
	var measurement string
	var tags map[string]string
	var fields map[string]any
	tn := instant
	switch w.InputType {
	case "lineprotocol":
		pts, err := models.ParsePointsWithPrecision([]byte(w.InputData), instant, "")
		if err != nil {
			return expectation{why: "line protocol does not parse"}
		}
		if len(pts) == 0 {
			return expectation{why: "line protocol input holds no point"}
		}
		ip := influxdb.NewPointFrom(pts[0])
		f, err := ip.Fields()
		if err != nil {
			return expectation{why: "fields of the first point cannot be decoded"}
		}
		fields, tags, measurement, tn = f, ip.Tags(), ip.Name(), ip.Time()
	case "text":
		measurement = "default_name"
		fields = map[string]any{"message": w.InputData}
	default:
		return expectation{why: "unsupported input type " + w.InputType}
	}
	pt := input.GetPoint()
	defer input.PutPoint(pt)
	input.InitPt(pt, measurement, tags, fields, tn)
	if err := sc.Run(pt, nil); err != nil {
		return expectation{why: "the script fails at run time: " + err.Error()}
	}
	if pt.Drop {
		return expectation{why: "point dropped"}
	}
	switch w.OutType {
	case "json":
		buf := bytes.NewBuffer(nil)
		enc := json.NewEncoder(buf)
		enc.SetEscapeHTML(false)
		enc.SetIndent("", "  ")
		if err := enc.Encode(map[string]any{"measurement": pt.Measurement, "tags": pt.Tags, "fields": pt.Fields, "time": pt.Time}); err != nil {
			return expectation{why: "result cannot be encoded as JSON: " + err.Error()}
		}
		return expectation{output: true, payload: buf.String()}
	default:
		op, err := influxdb.NewPoint(pt.Measurement, pt.Tags, pt.Fields, pt.Time)
		if err != nil {
			return expectation{why: "result cannot be encoded as line protocol: " + err.Error()}
		}
		return expectation{output: true, payload: op.String()}
	}
}

const marker = "Platypus Output Data:\n"

var dirSeq int

func (Prop) Run(p *core.Plan) *core.Result {
	plenv.Quiet()
	var w Workload
	if err := p.GetWorkload(&w); err != nil {
		return &core.Result{Infra: "bad workload: " + err.Error()}
	}
	cli := os.Getenv("VERIF_CLI")
	tmp := os.Getenv("VERIF_TMP")
	if cli == "" || tmp == "" {
		return &core.Result{Infra: "VERIF_CLI / VERIF_TMP not set (run through ./check)"}
	}
	loc, err := time.LoadLocation(w.Zone)
	if err != nil {
		return &core.Result{Infra: "bad zone"}
	}
	res := &core.Result{Faults: map[string]int{}, Probes: map[string]int{}}
	savedLocal := time.Local
	time.Local = loc
	defer func() { time.Local = savedLocal }()

	// reference under the same instant and zone
	world := core.BeginWorld(p, 3000000, true)
	world.BaseTime = time.Unix(0, w.ClockNanos)
	var exp expectation
	pv, blown := core.Guard(func() { exp = reference(&w, loc) })
	simrt.End()
	res.Events = world.Events
	if blown {
		// the generated script is too large for the budget: the plan decides nothing
		res.Probes["plans_skipped_reference_over_budget"]++
		return res
	}
	if pv != nil {
		return &core.Result{Infra: fmt.Sprintf("library reference panicked: %v", pv)}
	}

	// the simulated disk
	dirSeq++
	dir := filepath.Join(tmp, fmt.Sprintf("w%d-%d", os.Getpid(), dirSeq))
	ws := filepath.Join(dir, "ws")
	if err := os.MkdirAll(ws, 0o755); err != nil {
		return &core.Result{Infra: err.Error()}
	}
	defer os.RemoveAll(dir)
	for _, f := range w.Files {
		path := filepath.Join(ws, f.Name)
		if strings.Contains(f.Name, "/") {
			if err := os.MkdirAll(filepath.Dir(path), 0o755); err != nil {
				return &core.Result{Infra: err.Error()}
			}
		}
		switch f.Kind {
		case "dir":
			err = os.MkdirAll(path, 0o755)
		case "dangling":
			err = os.Symlink(filepath.Join(dir, "nowhere"), path)
		case "link":
			target := filepath.Join(dir, "shared", "real_"+filepath.Base(f.Name)+".txt")
			if err = os.MkdirAll(filepath.Dir(target), 0o755); err == nil {
				if err = os.WriteFile(target, []byte(f.Content), 0o644); err == nil {
					err = os.Symlink(target, path)
				}
			}
		default:
			err = os.WriteFile(path, []byte(f.Content), 0o644)
		}
		if err != nil {
			return &core.Result{Infra: err.Error()}
		}
	}
	cwd := ws
	if w.CwdOther {
		cwd = filepath.Join(dir, "elsewhere")
		if err := os.MkdirAll(cwd, 0o755); err != nil {
			return &core.Result{Infra: err.Error()}
		}
		for _, f := range w.CwdFiles {
			if err := os.WriteFile(filepath.Join(cwd, f.Name), []byte(f.Content), 0o644); err != nil {
				return &core.Result{Infra: err.Error()}
			}
		}
	}
	inPath := filepath.Join(dir, "input.dat")
	switch w.InputFault {
	case "":
		err = os.WriteFile(inPath, []byte(w.InputData), 0o644)
	case "dir":
		err = os.MkdirAll(inPath, 0o755)
	case "dangling":
		err = os.Symlink(filepath.Join(dir, "nowhere"), inPath)
	}
	if err != nil {
		return &core.Result{Infra: err.Error()}
	}
	var args []string
	switch w.Mode {
	case "workspace":
		args = []string{"run", "-w", ws, "-s", w.Script}
	case "single":
		args = []string{"run", "-w", "", "-s", w.Script}
	case "single_path":
		args = []string{"run", "-w", "", "-s", filepath.Join(ws, w.Script)}
	default:
		return &core.Result{Infra: "bad mode"}
	}
	if w.InputFault != "none" {
		args = append(args, "-i", inPath)
	}
	args = append(args, "-t", w.InputType, "--output-type", w.OutType)
	var out, errOut string
	var runErr error
	crashed := ""
	if w.InProcess {
		out, crashed = runInProcess(p, &w, cwd, args)
		res.Probes["in_process_cli_runs"]++
	} else {
		cmd := exec.Command(cli, args...)
		cmd.Dir = cwd
		cmd.Env = []string{"TZ=" + w.Zone, fmt.Sprintf("VERIF_SIM_CLOCK=%d", w.ClockNanos), "HOME=" + dir, "PATH=/usr/bin:/bin"}
		var stdout, stderr bytes.Buffer
		cmd.Stdout, cmd.Stderr = &stdout, &stderr
		// wall-clock watchdog only as a backstop (the reference above terminated within its step budget)
		if err := cmd.Start(); err != nil {
			return &core.Result{Infra: "cannot start the CLI: " + err.Error()}
		}
		done := make(chan error, 1)
		go func() { done <- cmd.Wait() }()
		select {
		case runErr = <-done:
		case <-time.After(60 * time.Second):
			_ = cmd.Process.Kill()
			<-done
			return &core.Result{Infra: "watchdog: the CLI did not finish within 60 s of wall-clock time although the library reference terminated"}
		}
		out, errOut = stdout.String(), stderr.String()
		res.Probes["exec_cli_runs"]++
		if _, ok := runErr.(*exec.ExitError); ok && (strings.Contains(errOut, "panic:") || strings.Contains(errOut, "goroutine ")) {
			crashed = errOut
		}
	}
	res.Evals = 1

	res.Sig = core.Hash(string(p.Workload))
	if k := strings.Index(out, marker); k >= 0 {
		res.Digest = core.Hash(out[k:], exp.output, exp.payload)
	} else {
		res.Digest = core.Hash("no output block", exp.output, exp.payload)
	}
	res.NonTrivial = true
	if w.InputFault != "" {
		res.Faults["input_"+w.InputFault]++
	}
	if !exp.output {
		res.Faults["no_output_expected"]++
	}
	viol := func(class, key, detail string) *core.Result {
		res.Violation = &core.Violation{Class: "C20/" + class, Key: key,
			Detail: fmt.Sprintf("%s\ncommand: platypus %s   (TZ=%s, simulated clock %s)\nselected script:\n%s\ninput (%s): %q\n--- stdout ---\n%s\n--- stderr ---\n%s",
				detail, strings.Join(args, " "), w.Zone, time.Unix(0, w.ClockNanos).In(loc).Format(time.RFC3339Nano), scriptText(&w), w.InputType, w.InputData, clip(out), clip(errOut+crashed))}
		return res
	}
	if crashed != "" {
		return viol("crash", "crash:"+exp.why, "the command crashed instead of reporting (reference: "+exp.why+")")
	}
	nonZeroExit := false
	if _, ok := runErr.(*exec.ExitError); ok {
		// a non-zero exit status is a way of reporting an error; it is only wrong when a result was due
		nonZeroExit = true
	} else if runErr != nil {
		return &core.Result{Infra: "cannot run the CLI: " + runErr.Error()}
	}
	i := strings.Index(out, marker)
	if !exp.output {
		if i >= 0 {
			return viol("unexpected-output", "output-despite-error", "an output block was printed although "+exp.why)
		}
		if w.InputFault != "none" || !strings.Contains(exp.why, "no input file") {
			// "reported": some line on stdout or stderr speaks of an error (any level, any wording containing "error")
			if !nonZeroExit && !strings.Contains(strings.ToLower(out+errOut), "error") {
				return viol("silent-error", "silent-error", "no output block and no error report although "+exp.why)
			}
		}
		res.Probes["error_runs_checked"]++
		return res
	}
	if i < 0 {
		return viol("missing-output", "missing-output", "no output block was printed; the library yields:\n"+exp.payload)
	}
	got := strings.TrimRight(out[i+len(marker):], "\n")
	want := strings.TrimRight(exp.payload, "\n")
	// compared by meaning, not by layout: same JSON value (time as an instant) / same parsed point
	if got != want && !sameResult(got, want, w.OutType) {
		key := "output-differs"
		for _, part := range []string{"measurement", "time", "tags", "fields"} {
			if differsIn(got, want, part, w.OutType) {
				key = "output-differs:" + part
				break
			}
		}
		return viol("output-differs", key, fmt.Sprintf("printed result differs from the library result\n--- printed ---\n%s\n--- library ---\n%s", got, want))
	}
	res.Probes["outputs_compared"]++
	return res
}

// runInProcess executes the command tree inside this process: the simulated
// world supplies the clock, time.Local the zone, the working directory is the
// workspace, and file descriptor 1 is redirected to a file for the duration.
func runInProcess(p *core.Plan, w *Workload, ws string, args []string) (out string, crashed string) {
	capture, err := os.CreateTemp(filepath.Dir(ws), "stdout")
	if err != nil {
		return "", "cannot create capture file: " + err.Error()
	}
	defer os.Remove(capture.Name())
	defer capture.Close()
	cwd, _ := os.Getwd()
	if err := os.Chdir(ws); err != nil {
		return "", "chdir: " + err.Error()
	}
	defer os.Chdir(cwd)
	saved, err := syscall.Dup(1)
	if err != nil {
		return "", "dup: " + err.Error()
	}
	saved2, err := syscall.Dup(2)
	if err != nil {
		syscall.Close(saved)
		return "", "dup: " + err.Error()
	}
	if err := syscall.Dup2(int(capture.Fd()), 1); err != nil {
		syscall.Close(saved)
		syscall.Close(saved2)
		return "", "dup2: " + err.Error()
	}
	_ = syscall.Dup2(int(capture.Fd()), 2)
	world := core.BeginWorld(p, 10*3000000, false) // ten times the reference's budget
	world.BaseTime = time.Unix(0, w.ClockNanos)
	pv, blown := core.Guard(func() {
		root := platypus.NewRootCmd()
		root.SetArgs(args)
		root.SilenceUsage = true
		_ = root.Execute()
	})
	simrt.End()
	_ = syscall.Dup2(saved, 1)
	_ = syscall.Dup2(saved2, 2)
	syscall.Close(saved)
	syscall.Close(saved2)
	b, _ := os.ReadFile(capture.Name())
	out = string(b)
	if blown {
		return out, "the in-process command exceeded the step budget"
	}
	if pv != nil {
		return out, fmt.Sprintf("panic: %v", pv)
	}
	return out, ""
}

// sameResult compares two rendered results by meaning: JSON documents as values (numbers as
// written, the time as an instant), line protocol as parsed points.
func sameResult(got, want, outType string) bool {
	if outType == "json" {
		var a, b map[string]interface{}
		da := json.NewDecoder(strings.NewReader(got))
		da.UseNumber()
		db := json.NewDecoder(strings.NewReader(want))
		db.UseNumber()
		if da.Decode(&a) != nil || db.Decode(&b) != nil {
			return false
		}
		ta, oka := a["time"].(string)
		tb, okb := b["time"].(string)
		if oka && okb {
			x, e1 := time.Parse(time.RFC3339Nano, ta)
			y, e2 := time.Parse(time.RFC3339Nano, tb)
			if e1 != nil || e2 != nil || !x.Equal(y) {
				return false
			}
			delete(a, "time")
			delete(b, "time")
		}
		ja, _ := json.Marshal(a)
		jb, _ := json.Marshal(b)
		return string(ja) == string(jb)
	}
	pa, e1 := models.ParsePointsString(got)
	pb, e2 := models.ParsePointsString(want)
	if e1 != nil || e2 != nil || len(pa) != 1 || len(pb) != 1 {
		return false
	}
	return pa[0].String() == pb[0].String()
}

func differsIn(got, want, part, outType string) bool {
	if outType != "json" {
		return false
	}
	var a, b map[string]json.RawMessage
	if json.Unmarshal([]byte(got), &a) != nil || json.Unmarshal([]byte(want), &b) != nil {
		return false
	}
	return string(a[part]) != string(b[part])
}

func scriptText(w *Workload) string {
	for _, f := range w.Files {
		if f.Name == w.Script {
			return f.Content
		}
	}
	return "<not in the workspace>"
}

func clip(s string) string {
	if len(s) > 2500 {
		return s[:2500] + "..."
	}
	return s
}

func (Prop) Shrink(p *core.Plan) []*core.Plan {
	var w Workload
	if p.GetWorkload(&w) != nil {
		return nil
	}
	var out []*core.Plan
	mk := func(nw Workload) {
		q := p.Clone()
		q.SetWorkload(&nw)
		out = append(out, q)
	}
	for i := range w.Files {
		if w.Files[i].Name == w.Script {
			continue
		}
		nw := w
		nw.Files = append(append([]File(nil), w.Files[:i]...), w.Files[i+1:]...)
		mk(nw)
	}
	for i := range w.Files {
		if w.Files[i].Kind != "file" && w.Files[i].Kind != "link" {
			continue
		}
		lines := strings.Split(strings.TrimRight(w.Files[i].Content, "\n"), "\n")
		if len(lines) < 2 {
			continue
		}
		for li := range lines {
			nl := append(append([]string(nil), lines[:li]...), lines[li+1:]...)
			nw := w
			nw.Files = append([]File(nil), w.Files...)
			nw.Files[i].Content = strings.Join(nl, "\n") + "\n"
			mk(nw)
		}
	}
	if w.Mode != "workspace" {
		nw := w
		nw.Mode = "workspace"
		mk(nw)
	}
	if w.InputType == "lineprotocol" {
		ls := strings.Split(strings.TrimRight(w.InputData, "\n"), "\n")
		if len(ls) > 1 {
			nw := w
			nw.InputData = ls[0] + "\n"
			mk(nw)
		}
	}
	if w.Zone != "UTC" {
		nw := w
		nw.Zone = "UTC"
		mk(nw)
	}
	sort.Slice(out, func(i, j int) bool { return len(out[i].Workload) < len(out[j].Workload) })
	return out
}
