// Package plenv holds environment plumbing shared by harnesses: silent
// loggers, function tables with probe builtins, simple point helpers.
package plenv

import (
	"os"
	"sync"

	"github.com/GuanceCloud/platypus/internal/logger"
	"github.com/GuanceCloud/platypus/pkg/engine/runtime"
	"github.com/GuanceCloud/platypus/pkg/inimpl/guancecloud/funcs"
	"github.com/GuanceCloud/platypus/pkg/parser"
	"go.uber.org/zap"
)

type nopLogger struct{}

func (nopLogger) Debug(args ...interface{})                 {}
func (nopLogger) Debugf(format string, args ...interface{}) {}
func (nopLogger) Info(args ...interface{})                  {}
func (nopLogger) Infof(format string, args ...interface{})  {}
func (nopLogger) Warn(args ...interface{})                  {}
func (nopLogger) Warnf(format string, args ...interface{})  {}
func (nopLogger) Error(args ...interface{})                 {}
func (nopLogger) Errorf(format string, args ...interface{}) {}
func (nopLogger) Fatal(args ...interface{})                 {}
func (nopLogger) Fatalf(format string, args ...interface{}) {}

var _ logger.Logger = nopLogger{}

var once sync.Once

// Quiet replaces the package loggers by no-ops (through the exported seams)
// and silences the parser's stderr dump of recovered panics.
func Quiet() {
	once.Do(func() {
		funcs.InitLog(zap.NewNop().Sugar())
		parser.InitLog(nopLogger{})
		if os.Getenv("VERIF_STDERR") == "" {
			if f, err := os.OpenFile(os.DevNull, os.O_WRONLY, 0); err == nil {
				os.Stderr = f
			}
		}
	})
}

// Tables returns copies of the real builtin tables, extended (never
// overridden) by the given probes.
func Tables(calls map[string]runtime.FuncCall, checks map[string]runtime.FuncCheck) (map[string]runtime.FuncCall, map[string]runtime.FuncCheck) {
	c := make(map[string]runtime.FuncCall, len(funcs.FuncsMap)+len(calls))
	k := make(map[string]runtime.FuncCheck, len(funcs.FuncsCheckMap)+len(checks))
	for n, f := range funcs.FuncsMap {
		c[n] = f
	}
	for n, f := range funcs.FuncsCheckMap {
		k[n] = f
	}
	for n, f := range calls {
		if _, dup := c[n]; dup {
			panic("plenv: probe would override builtin " + n)
		}
		c[n] = f
	}
	for n, f := range checks {
		if _, dup := k[n]; dup {
			panic("plenv: probe would override builtin check " + n)
		}
		k[n] = f
	}
	return c, k
}
