// Package props registers the property harnesses.
package props

import (
	"github.com/GuanceCloud/platypus/internal/verifsim/c14"
	"github.com/GuanceCloud/platypus/internal/verifsim/core"
)

func init() {
	core.Register(c14.Prop{})
}
