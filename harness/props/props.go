// Package props registers the property harnesses.
package props

import (
	"github.com/GuanceCloud/platypus/internal/verifsim/c09"
	"github.com/GuanceCloud/platypus/internal/verifsim/c10"
	"github.com/GuanceCloud/platypus/internal/verifsim/c13"
	"github.com/GuanceCloud/platypus/internal/verifsim/c14"
	"github.com/GuanceCloud/platypus/internal/verifsim/c15"
	"github.com/GuanceCloud/platypus/internal/verifsim/c16"
	"github.com/GuanceCloud/platypus/internal/verifsim/c20"
	"github.com/GuanceCloud/platypus/internal/verifsim/core"
)

func init() {
	core.Register(c09.Prop{})
	core.Register(c10.Prop{})
	core.Register(c13.Prop{})
	core.Register(c14.Prop{})
	core.Register(c15.Prop{})
	core.Register(c16.Prop{})
	core.Register(c20.Prop{})
}
