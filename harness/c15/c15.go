// Package c15 decides property C15: each load and each run depends only on its
// script text, the registered functions and the input point - not on what was
// parsed, checked, run, failed or cancelled before, nor on which pooled
// parser/task/point/metadata object it is handed.
//
// A plan is a history of LOAD / PARSE / RUN / RUNV2 / PURGE operations, each
// with its own simulated instant and zone. The history executes with every
// sync.Pool hand-out decided by the simulator. The reference executes the same
// operations in REVERSE order (so that every operation has different
// predecessors) with pools that only ever hand out fresh objects and with the
// scripts re-loaded from text. Outcomes must be equal operation by operation.
package c15

import (
	"bytes"
	"encoding/json"
	"fmt"
	"os"
	"path/filepath"
	"os/exec"
	"sort"
	"strings"
	"time"
	_ "time/tzdata"

	"github.com/GuanceCloud/platypus/internal/simrt"
	"github.com/GuanceCloud/platypus/internal/verifsim/core"
	"github.com/GuanceCloud/platypus/internal/verifsim/corpus"
	"github.com/GuanceCloud/platypus/internal/verifsim/dump"
	"github.com/GuanceCloud/platypus/internal/verifsim/plenv"
	"github.com/GuanceCloud/platypus/pkg/ast"
	"github.com/GuanceCloud/platypus/pkg/engine"
	"github.com/GuanceCloud/platypus/pkg/engine/runtime"
	"github.com/GuanceCloud/platypus/pkg/engine/runtimev2"
	"github.com/GuanceCloud/platypus/pkg/errchain"
	"github.com/GuanceCloud/platypus/pkg/inimpl/guancecloud/funcs"
	"github.com/GuanceCloud/platypus/pkg/inimpl/guancecloud/input"
	"github.com/GuanceCloud/platypus/pkg/parser"
)

type Op struct {
	Kind       string `json:"kind"`           // load, parse, run, runv2, purge
	Set        int    `json:"set,omitempty"`  // load / run: index into Sets
	Name       string `json:"name,omitempty"` // run: script name
	Src        int    `json:"src,omitempty"`  // parse: index into Sources; runv2: index into V2
	Point      int    `json:"point,omitempty"`
	CancelPoll int    `json:"cancel_poll,omitempty"` // host signal reports true from this poll on (0 = never)
	ClockOff   int64  `json:"clock_off,omitempty"`   // seconds added to the base instant for this operation
	Zone       string `json:"zone,omitempty"`
	// NoTime: the host passes the zero time for the input point (it has no timestamp)
	NoTime bool `json:"no_time,omitempty"`
	// Private: the host starts the run with runtime.WithPrivate({"tenant": Private}) ("" = without the option)
	Private string `json:"private,omitempty"`
}

type Workload struct {
	// FreshProcess: additionally execute every distinct operation alone in a
	// freshly exec'ed process (the literal "fresh process state") and compare.
	FreshProcess bool                `json:"fresh_process,omitempty"`
	// DirLoads: loads go through the file loader - the set is written to one workspace directory
	// (the same paths for every set, fixed modification times: the simulated disk) and read back
	// with engine.ReadPlScriptFromDir before ParseScript
	DirLoads bool `json:"dir_loads,omitempty"`
	Sets         []map[string]string `json:"sets"`
	Sources      []string            `json:"sources"`
	V2           []string            `json:"v2"`
	Points       []corpus.PointT     `json:"points"`
	Ops          []Op                `json:"ops"`
}

type Prop struct{}

func (Prop) ID() string { return "C15" }
func (Prop) Size(tier string) int {
	if tier == "thorough" {
		return 600000
	}
	return 15000
}
// ProcessesPerWorker: process state is part of what C15 quantifies over; several shorter-lived
// worker processes give more "first operations of a process".
func (Prop) ProcessesPerWorker(tier string) int {
	if tier == "thorough" {
		return 20
	}
	return 4
}

func (Prop) Rule() string {
	return "plan = history of <=30 operations LOAD(set) / PARSE(src) / RUN(script of a loaded set, point, optional cancellation at poll k) / RUNV2(script) / PURGE over <=8 generated scripts (grok+add_pattern, use links, loops, run-time errors mid-loop, exit, default_time with year-less and zone-less stamps, json/xml/sql/url builtins; broken and unparsable members; sources mutated to be invalid or to trip the parser's recover) x <=4 points (0-3 input tags, with and without timestamp), runs with and without host run options (private values), check failures of every kind in every statement context, near-miss spellings of names, plan-level pattern and zone names, each operation with its own simulated instant and zone; every pool Get is a simulator decision (fresh / any idle object / purge first); evaluation = one execution of the history (forward with recycling, or reference in reverse order with fresh objects only); non-trivial = at least one dirty object was recycled and >=2 operations were compared; distinct = hash of (workload, recycle decisions)"
}
func (Prop) Assumptions() []string {
	return []string{
		"pristine state is realised in-process: simulated pools hand out fresh objects only, scripts are re-loaded from text, and the reference runs the operations in reverse order so that a leak through anything that is not a pool shows up as a difference; package-level tables are fingerprinted after every operation; in the thorough tier a sample of operations is additionally executed in a freshly exec'ed process",
		"clock and zone are environment, not history: each compared pair runs under the same simulated instant and zone",
		"outcomes compared: both result maps of a load (verdict, error text and position chain, full AST dump incl. positions), AST dump or error of a parse, final point (measurement, tags, fields with Go types, time, drop flag) and returned error chain of a run, probe trace and error of a v2 run",
	}
}

var zones = corpus.Zones

func (Prop) Generate(seed uint64, tier string) *core.Plan {
	r := simrt.NewRNG(seed)
	corpus.SetTheme(r)
	w := Workload{}
	w.FreshProcess = r.Intn(300) == 0
	w.DirLoads = r.Intn(4) == 0
	hostOpts := r.Intn(4) == 0 // the host uses run options (private values) and a function that reads them
	if tier == "thorough" {
		w.FreshProcess = r.Intn(100) == 0
	}
	nsets := 1 + r.Intn(3)
	for i := 0; i < nsets; i++ {
		if i > 0 && r.Intn(2) == 0 {
			// a reload with an edit: the same set again with one script changed (callers keep their
			// exact text; the callee they name differs) - and sometimes not changed at all
			prev := w.Sets[r.Intn(i)]
			cp := map[string]string{}
			for k, v := range prev {
				cp[k] = v
			}
			names := sortedNames(cp)
			if r.Intn(4) != 0 {
				n := names[r.Intn(len(names))]
				if ed := bumpDigit(cp[n]); ed != "" && r.Intn(2) == 0 {
					cp[n] = ed // an edit that keeps the length
				} else {
					cp[n] = corpus.GenScript(r, 90+i)
				}
			}
			w.Sets = append(w.Sets, cp)
			continue
		}
		set := corpus.GenSet(r)
		if hostOpts {
			// scripts that call a host-registered function reading the run's private values
			for _, n := range sortedNames(set) {
				if r.Intn(2) == 0 {
					set[n] = "pv()\n" + set[n]
				}
			}
		}
		w.Sets = append(w.Sets, set)
	}
	nsrc := 1 + r.Intn(4)
	for i := 0; i < nsrc; i++ {
		s := corpus.GenScript(r, 50+i)
		if r.Intn(3) != 0 {
			s = corpus.Mutate(r, s)
		}
		w.Sources = append(w.Sources, s)
	}
	for i := 0; i < 2; i++ {
		w.V2 = append(w.V2, corpus.GenV2(r, i))
	}
	np := 1 + r.Intn(4)
	for i := 0; i < np; i++ {
		w.Points = append(w.Points, corpus.GenPoint(r))
	}
	nops := 2 + r.Intn(29)
	if r.Intn(3) == 0 {
		nops = 2 + r.Intn(6)
	} else if r.Intn(25) == 0 {
		nops = 40 + r.Intn(60) // occasionally a long history (N-th use effects)
	}
	clockMode := r.Intn(3) // 0 fixed, 1 small steps, 2 jumps across years
	zoneMode := r.Intn(2)
	if w.FreshProcess {
		// environment-stress plan: the fresh-process reference is most telling when
		// operations of one plan run under different years and zones
		clockMode, zoneMode = 2, 1
		for i := range w.Points {
			w.Points[i].Str["ts"] = []string{"14 May 19:11:40.164", "2024-03-05 12:30:45", "29 Feb 23:59:59.999"}[r.Intn(3)]
		}
		for si := range w.Sets {
			for _, n := range sortedNames(w.Sets[si]) {
				if r.Intn(2) == 0 {
					w.Sets[si][n] = "default_time(ts)\n" + w.Sets[si][n]
				}
			}
		}
	}
	zone := zones[r.Intn(len(zones))]
	var off int64
	for i := 0; i < nops; i++ {
		op := Op{}
		switch clockMode {
		case 1:
			off += int64(r.Intn(3600))
		case 2:
			off += int64(r.Intn(400)) * 86400
		}
		op.ClockOff = off
		if zoneMode == 1 && r.Intn(4) == 0 {
			zone = zones[r.Intn(len(zones))]
		}
		op.Zone = zone
		c := r.Intn(100)
		switch {
		case c < 18:
			op.Kind = "load"
			op.Set = r.Intn(nsets)
		case c < 34:
			op.Kind = "parse"
			op.Src = r.Intn(nsrc)
		case c < 84:
			op.Kind = "run"
			op.Set = r.Intn(nsets)
			names := sortedNames(w.Sets[op.Set])
			op.Name = names[r.Intn(len(names))]
			op.Point = r.Intn(np)
			if r.Intn(4) == 0 {
				op.CancelPoll = 1 + r.Intn(12)
			}
			op.NoTime = r.Intn(8) == 0
			if hostOpts && r.Intn(3) == 0 {
				op.Private = []string{"acme", "globex"}[r.Intn(2)]
			}
		case c < 94:
			op.Kind = "runv2"
			op.Src = r.Intn(len(w.V2))
			if r.Intn(4) == 0 {
				op.CancelPoll = 1 + r.Intn(12)
			}
		default:
			op.Kind = "purge"
		}
		w.Ops = append(w.Ops, op)
	}
	p := &core.Plan{Property: "C15", Version: core.HarnessVersion, Seed: seed, Tier: tier,
		ChooserSeed: simrt.Mix(seed, 15),
		Rates: simrt.Rates{
			Recycle: []float64{0.5, 0.9, 1}[r.Intn(3)],
			Purge:   []float64{0, 0.02, 0.1}[r.Intn(3)],
			Shuffle: []float64{0, 0.5, 1}[r.Intn(3)],
		},
	}
	p.SetWorkload(&w)
	return p
}

func sortedNames(m map[string]string) []string {
	var ns []string
	for k := range m {
		ns = append(ns, k)
	}
	sort.Strings(ns)
	return ns
}

// ---------------------------------------------------------------------------

type pollSig struct {
	at, polls int
}

func (s *pollSig) ExitSignal() bool {
	s.polls++
	return s.at != 0 && s.polls >= s.at
}

type executor struct {
	w      *Workload
	calls  map[string]runtime.FuncCall
	checks map[string]runtime.FuncCheck
	loaded map[int]map[string]*runtime.Script // history state: most recent LOAD of each set
	lerrs  map[int]map[string]error
	v2out  []string
	probes map[string]int
	base   time.Time
}

func errStr(e error) string {
	if e == nil {
		return "nil"
	}
	if pe, ok := e.(*errchain.PlError); ok {
		if pe == nil {
			return "nil"
		}
		return fmt.Sprintf("PlError{%q %v}", pe.Err, pe.PosChain)
	}
	return fmt.Sprintf("error{%s}", e.Error())
}

func (x *executor) setEnv(op *Op) string {
	loc, err := time.LoadLocation(op.Zone)
	if err != nil {
		return "bad zone " + op.Zone
	}
	time.Local = loc
	simrt.SetNow(x.base.Add(time.Duration(op.ClockOff) * time.Second))
	return ""
}

// bumpDigit changes the first decimal digit of a script text (same length), "" if there is none.
func bumpDigit(src string) string {
	for i := 0; i < len(src); i++ {
		if c := src[i]; c >= '0' && c <= '9' {
			return src[:i] + string(rune('0'+(c-'0'+1)%10)) + src[i+1:]
		}
	}
	return ""
}

var wsStamp = time.Unix(1600000000, 0)

// viaDir writes a set to the workspace directory of this process and reads it back through the
// file loader: every set uses the same paths, every file the same modification time.
func viaDir(set map[string]string) (map[string]string, error) {
	base := os.Getenv("VERIF_TMP")
	if base == "" {
		base = os.TempDir()
	}
	dir := filepath.Join(base, fmt.Sprintf("c15-%d", os.Getpid()), "ws")
	if err := os.RemoveAll(dir); err != nil {
		return nil, err
	}
	if err := os.MkdirAll(dir, 0o755); err != nil {
		return nil, err
	}
	for _, n := range sortedNames(set) {
		f := filepath.Join(dir, n)
		if err := os.WriteFile(f, []byte(set[n]), 0o644); err != nil {
			return nil, err
		}
		if err := os.Chtimes(f, wsStamp, wsStamp); err != nil {
			return nil, err
		}
	}
	src, _, err := engine.ReadPlScriptFromDir(dir)
	return src, err
}

func (x *executor) load(set int) string {
	src := map[string]string{}
	for k, v := range x.w.Sets[set] {
		src[k] = v
	}
	if x.w.DirLoads {
		var err error
		if src, err = viaDir(x.w.Sets[set]); err != nil {
			return "READERR " + err.Error()
		}
		x.probes["loads_through_the_file_loader"]++
	}
	okM, errM := engine.ParseScript(src, x.calls, x.checks)
	x.loaded[set] = okM
	x.lerrs[set] = errM
	var parts []string
	for _, n := range sortedNames(x.w.Sets[set]) {
		if s, ok := okM[n]; ok {
			parts = append(parts, fmt.Sprintf("%s: OK callrefs=%d ast=%016x", n, len(s.CallRef), core.Hash(dump.Value(s.Ast))))
		} else {
			parts = append(parts, fmt.Sprintf("%s: ERR %s", n, errStr(errM[n])))
		}
	}
	return strings.Join(parts, "\n")
}

func pointStr(pt *input.Point) string {
	var parts []string
	for k, v := range pt.Tags {
		parts = append(parts, "T "+k+"="+v)
	}
	for k, v := range pt.Fields {
		parts = append(parts, fmt.Sprintf("F %s=%T:%v", k, v, v))
	}
	sort.Strings(parts)
	return fmt.Sprintf("m=%q drop=%v time=%d %s", pt.Measurement, pt.Drop, pt.Time.UnixNano(), strings.Join(parts, ";"))
}

func (x *executor) run(op *Op, fresh bool) string {
	if fresh || x.loaded[op.Set] == nil {
		x.load(op.Set)
	}
	sc, ok := x.loaded[op.Set][op.Name]
	if !ok {
		return "REJECTED " + errStr(x.lerrs[op.Set][op.Name])
	}
	pt := input.GetPoint()
	tpl := &x.w.Points[op.Point]
	ptTime := x.base
	if op.NoTime {
		ptTime = time.Time{}
	}
	input.InitPt(pt, tpl.Measurement, tpl.TagsCopy(), tpl.Fields(), ptTime)
	sig := &pollSig{at: op.CancelPoll}
	var err *errchain.PlError
	if op.Private != "" {
		err = sc.Run(pt, sig, runtime.WithPrivate(map[string]any{"tenant": op.Private}))
	} else {
		err = sc.Run(pt, sig)
	}
	out := fmt.Sprintf("err=%s %s", errStr(errOrNil(err)), pointStr(pt))
	input.PutPoint(pt)
	if op.CancelPoll != 0 && sig.polls >= op.CancelPoll {
		x.probes["run_cancelled"]++
	}
	if err != nil {
		x.probes["run_failed"]++
	}
	return out
}

func errOrNil(e *errchain.PlError) error {
	if e == nil {
		return nil
	}
	return e
}

func (x *executor) parse(op *Op) string {
	stmts, err := parser.ParsePipeline("src.p", x.w.Sources[op.Src])
	if err != nil {
		if strings.Contains(err.Error(), "unexpected error") {
			x.probes["parser_recovered_panic"]++
		}
		x.probes["parse_failed"]++
		return "ERR " + errStr(err)
	}
	return "OK " + dump.Value(stmts)
}

func (x *executor) runv2(op *Op) string {
	x.v2out = nil
	fn := map[string]*runtimev2.Fn{"out": {
		Call: func(ctx *runtimev2.Task, e *ast.CallExpr) *errchain.PlError {
			if len(e.Param) != 1 {
				return nil
			}
			if err := runtimev2.RunExpr(ctx, e.Param[0]); err != nil {
				return err
			}
			v, rerr := ctx.Regs.GetRet()
			if rerr != nil {
				x.v2out = append(x.v2out, "noval")
				return nil
			}
			x.v2out = append(x.v2out, fmt.Sprintf("%T:%v", v.V, v.V))
			return nil
		},
		CallCheck: func(ctx *runtimev2.Task, e *ast.CallExpr) *errchain.PlError { return nil },
	}}
	s, err := engine.ParseV2("v2.p", x.w.V2[op.Src], fn)
	if err != nil {
		return "LOADERR " + errStr(err)
	}
	sig := &pollSig{at: op.CancelPoll}
	rerr := s.Run(sig)
	return fmt.Sprintf("err=%s out=%v", errStr(errOrNil(rerr)), x.v2out)
}

const refBudget = 400000

func (x *executor) do(op *Op, fresh bool) (out string) {
	if msg := x.setEnv(op); msg != "" {
		return msg
	}
	// the pristine reference gets refBudget events; a history execution ten times as many, so that
	// "the history run did not come back" can never be an artefact of a plan near the limit
	if fresh {
		simrt.SetBudget(refBudget)
	} else {
		simrt.SetBudget(10 * refBudget)
	}
	pv, blown := core.Guard(func() {
		switch op.Kind {
		case "load":
			out = x.load(op.Set)
		case "parse":
			out = x.parse(op)
		case "run":
			out = x.run(op, fresh)
		case "runv2":
			out = x.runv2(op)
		case "purge":
			simrt.PurgeAll()
			out = "purged"
		default:
			out = "unknown op"
		}
	})
	simrt.SetBudget(0)
	if blown {
		return "BLOWN"
	}
	if pv != nil {
		return fmt.Sprintf("PANIC %v", pv)
	}
	return out
}

func fingerprint() uint64 {
	var ks []string
	for k, v := range runtime.DenormalizedGlobalPatterns {
		ks = append(ks, "P:"+k+fmt.Sprintf("%p", v))
	}
	for k := range funcs.FuncsMap {
		ks = append(ks, "F:"+k)
	}
	for k := range funcs.FuncsCheckMap {
		ks = append(ks, "C:"+k)
	}
	sort.Strings(ks)
	return core.Hash(strings.Join(ks, "|"))
}

func newExec(w *Workload, base time.Time) *executor {
	// pv(): a host-registered function that stamps the run's private value (runtime.WithPrivate) on the point
	calls, checks := plenv.Tables(map[string]runtime.FuncCall{
		"pv": func(ctx *runtime.Task, e *ast.CallExpr) *errchain.PlError {
			v, ok := ctx.PValue("tenant")
			if pt, isPt := ctx.InData().(*input.Point); isPt {
				_ = pt.Set("pv_tenant", fmt.Sprintf("%v/%v", v, ok), ast.String)
			}
			return nil
		},
	}, map[string]runtime.FuncCheck{
		"pv": func(ctx *runtime.Task, e *ast.CallExpr) *errchain.PlError { return nil },
	})
	return &executor{w: w, calls: calls, checks: checks, loaded: map[int]map[string]*runtime.Script{}, lerrs: map[int]map[string]error{},
		probes: map[string]int{}, base: base}
}

func (Prop) Run(p *core.Plan) *core.Result {
	plenv.Quiet()
	savedLocal := time.Local
	defer func() { time.Local = savedLocal }()
	var w Workload
	if err := p.GetWorkload(&w); err != nil {
		return &core.Result{Infra: "bad workload: " + err.Error()}
	}
	res := &core.Result{Faults: map[string]int{}, Probes: map[string]int{}}
	fp0 := fingerprint()
	// reference: reverse order, fresh objects only, scripts re-loaded from text
	wa := core.BeginWorld(p, 0, true)
	xa := newExec(&w, wa.BaseTime)
	ref := make([]string, len(w.Ops))
	for i := len(w.Ops) - 1; i >= 0; i-- {
		ref[i] = xa.do(&w.Ops[i], true)
	}
	simrt.End()
	res.Evals++
	res.Events += wa.Events
	res.Digest ^= wa.Digest
	if fingerprint() != fp0 {
		res.Violation = &core.Violation{Class: "C15/global-mutated", Key: "global-table", Detail: "a package-level table (global grok patterns / function tables) changed during the reference execution"}
		res.NonTrivial = true
		return res
	}
	for _, o := range ref {
		if o == "BLOWN" {
			// the generated program is too large for the budget (the generator's fault, not the
			// code's): the plan decides nothing and is counted as skipped
			res.Probes["plans_skipped_reference_over_budget"]++
			return res
		}
	}
	// history: forward order, simulator-chosen recycling
	wb := core.BeginWorld(p, 0, false)
	xb := newExec(&w, wb.BaseTime)
	compared := 0
	for i := range w.Ops {
		got := xb.do(&w.Ops[i], false)
		res.Digest ^= core.Hash(i, got)
		if fingerprint() != fp0 {
			res.Violation = &core.Violation{Class: "C15/global-mutated", Key: "global-table:" + w.Ops[i].Kind,
				Detail: fmt.Sprintf("a package-level table changed during op #%d %+v", i, w.Ops[i])}
			break
		}
		if w.Ops[i].Kind == "purge" {
			continue
		}
		compared++
		if got != ref[i] {
			res.Violation = &core.Violation{Class: "C15/" + w.Ops[i].Kind + "-depends-on-history", Key: w.Ops[i].Kind + "-differs",
				Detail: fmt.Sprintf("op #%d %+v\n  in the history (after %d earlier operations, recycled objects): %s\n  in pristine state:                                            %s\n%s",
					i, w.Ops[i], i, clip(got), clip(ref[i]), opText(&w, &w.Ops[i]))}
			break
		}
	}
	res.Recorded = simrt.End()
	res.Evals++
	res.Events += wb.Events
	res.Digest ^= wb.Digest
	if w.FreshProcess && res.Violation == nil {
		if infra := freshProcessCheck(p, &w, ref, res); infra != "" {
			return &core.Result{Infra: infra}
		}
	}
	res.Faults["pool_recycle"] = int(wb.Fired[simrt.KPoolGet])
	res.Faults["pool_purge"] = int(wb.Fired[simrt.KPurge])
	res.Faults["map_order_permuted"] = int(wb.Fired[simrt.KMapOrd])
	for k, v := range xb.probes {
		if k == "run_cancelled" || k == "run_failed" || k == "parse_failed" || k == "parser_recovered_panic" {
			res.Faults[k] += v
		} else {
			res.Probes[k] += v
		}
	}
	for _, pl := range simrt.Pools() {
		_ = pl
	}
	res.Probes["operations_compared"] += compared
	for _, op := range w.Ops {
		if d := int(op.ClockOff / 86400); d > res.Probes["max_simulated_calendar_span_days"] {
			res.Probes["max_simulated_calendar_span_days"] = d
		}
	}
	res.Sets = map[string][]uint64{}
	for i, o := range ref {
		if i < 64 {
			res.Sets["operation_outcomes"] = append(res.Sets["operation_outcomes"], core.Hash(w.Ops[i].Kind, o))
		}
	}
	res.NonTrivial = res.Violation != nil || (wb.Fired[simrt.KPoolGet] > 0 && compared >= 2)
	res.Sig = core.Hash(string(p.Workload), wb.Digest)
	res.Sample = map[string]interface{}{"ops": w.Ops, "first_set": w.Sets[0]}
	return res
}

// freshProcessCheck executes each distinct operation of the plan alone in a
// newly exec'ed process and compares with the in-process outcomes (which by now
// equal each other).
func freshProcessCheck(p *core.Plan, w *Workload, ref []string, res *core.Result) string {
	self, err := os.Executable()
	if err != nil {
		return "os.Executable: " + err.Error()
	}
	pj, _ := json.Marshal(p)
	seen := map[string]bool{}
	for i := range w.Ops {
		op := w.Ops[i]
		if op.Kind == "purge" {
			continue
		}
		kj, _ := json.Marshal(op)
		if seen[string(kj)] {
			continue
		}
		seen[string(kj)] = true
		// the child writes the outcome to a file: its stdout belongs to the scripts (printf)
		of, err := os.CreateTemp("", "c15child")
		if err != nil {
			return "cannot create the child's outcome file: " + err.Error()
		}
		of.Close()
		cmd := exec.Command(self, "c15child", fmt.Sprint(i), of.Name())
		cmd.Stdin = bytes.NewReader(pj)
		cmd.Env = append(os.Environ(), "GOMAXPROCS=1")
		if err := cmd.Run(); err != nil {
			os.Remove(of.Name())
			return fmt.Sprintf("fresh-process child failed for op %d: %v", i, err)
		}
		outb, err := os.ReadFile(of.Name())
		os.Remove(of.Name())
		if err != nil {
			return "cannot read the child's outcome file: " + err.Error()
		}
		res.Probes["fresh_process_references"]++
		got := string(outb)
		if got != ref[i] {
			res.Violation = &core.Violation{Class: "C15/" + op.Kind + "-differs-from-fresh-process", Key: op.Kind + "-fresh-process",
				Detail: fmt.Sprintf("op #%d %+v\n  performed first in a fresh process: %s\n  performed inside this process (after other operations, even with fresh pooled objects): %s\n%s",
					i, op, clip(got), clip(ref[i]), opText(w, &op))}
			res.NonTrivial = true
			return ""
		}
	}
	return ""
}

func childMain(args []string) int {
	plenv.Quiet()
	if len(args) != 2 {
		return 2
	}
	var idx int
	fmt.Sscan(args[0], &idx)
	var p core.Plan
	if err := json.NewDecoder(os.Stdin).Decode(&p); err != nil {
		return 2
	}
	var w Workload
	if p.GetWorkload(&w) != nil || idx < 0 || idx >= len(w.Ops) {
		return 2
	}
	wa := core.BeginWorld(&p, 0, true)
	x := newExec(&w, wa.BaseTime)
	out := x.do(&w.Ops[idx], true)
	simrt.End()
	if err := os.WriteFile(args[1], []byte(out), 0o600); err != nil {
		return 2
	}
	return 0
}

func init() { core.Subcommands["c15child"] = childMain }

func clip(s string) string {
	if len(s) > 1500 {
		return s[:1500] + "...(" + fmt.Sprint(len(s)) + " bytes)"
	}
	return s
}

func opText(w *Workload, op *Op) string {
	switch op.Kind {
	case "run":
		return fmt.Sprintf("script %s of set %d:\n%s\npoint: %+v", op.Name, op.Set, w.Sets[op.Set][op.Name], w.Points[op.Point])
	case "load":
		return fmt.Sprintf("set %d: %v", op.Set, w.Sets[op.Set])
	case "parse":
		return fmt.Sprintf("source: %q", w.Sources[op.Src])
	case "runv2":
		return "v2 script:\n" + w.V2[op.Src]
	}
	return ""
}

func (Prop) Shrink(p *core.Plan) []*core.Plan {
	var w Workload
	if p.GetWorkload(&w) != nil {
		return nil
	}
	var out []*core.Plan
	mk := func(ops []Op) {
		nw := w
		nw.Ops = ops
		q := p.Clone()
		q.SetWorkload(&nw)
		out = append(out, q)
	}
	n := len(w.Ops)
	if n >= 4 {
		mk(append([]Op(nil), w.Ops[n/2:]...))
		mk(append([]Op(nil), w.Ops[:n/2]...))
	}
	for i := 0; i < n; i++ {
		ops := append(append([]Op(nil), w.Ops[:i]...), w.Ops[i+1:]...)
		mk(ops)
	}
	for i := 0; i < n; i++ {
		op := w.Ops[i]
		if op.ClockOff != 0 || op.Zone != "UTC" || op.CancelPoll != 0 {
			ops := append([]Op(nil), w.Ops...)
			if op.CancelPoll != 0 {
				ops[i].CancelPoll = 0
				mk(ops)
				ops = append([]Op(nil), w.Ops...)
			}
			ops[i].ClockOff = 0
			ops[i].Zone = "UTC"
			mk(ops)
		}
	}
	// drop scripts from sets
	for si, set := range w.Sets {
		for _, name := range sortedNames(set) {
			if len(set) <= 1 {
				continue
			}
			used := false
			for _, op := range w.Ops {
				if op.Kind == "run" && op.Set == si && op.Name == name {
					used = true
				}
			}
			if used {
				continue
			}
			nw := w
			nw.Sets = append([]map[string]string(nil), w.Sets...)
			ns := map[string]string{}
			for k, v := range set {
				if k != name {
					ns[k] = v
				}
			}
			nw.Sets[si] = ns
			q := p.Clone()
			q.SetWorkload(&nw)
			out = append(out, q)
		}
	}
	// drop lines from scripts
	for si, set := range w.Sets {
		for _, name := range sortedNames(set) {
			lines := strings.Split(strings.TrimRight(set[name], "\n"), "\n")
			if len(lines) < 2 || len(lines) > 40 {
				continue
			}
			for li := range lines {
				nl := append(append([]string(nil), lines[:li]...), lines[li+1:]...)
				nw := w
				nw.Sets = append([]map[string]string(nil), w.Sets...)
				ns := map[string]string{}
				for k, v := range set {
					ns[k] = v
				}
				ns[name] = strings.Join(nl, "\n") + "\n"
				nw.Sets[si] = ns
				q := p.Clone()
				q.SetWorkload(&nw)
				out = append(out, q)
			}
		}
	}
	return out
}
