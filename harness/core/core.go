// Package core holds what all property harnesses share: plans, results, the
// delta-debugging shrinker, the worker/batch protocol and the evidence writer.
package core

import (
	"encoding/json"
	"fmt"
	"hash/fnv"
	"os"
	"sort"
	"time"

	"github.com/GuanceCloud/platypus/internal/simrt"
)

const HarnessVersion = 1

// Plan describes one simulated run completely. Run(plan) is a pure function.
type Plan struct {
	Property string `json:"property"`
	Version  int    `json:"harness_version"`
	Seed     uint64 `json:"seed"`  // generation seed (informational after generation)
	Index    uint64 `json:"index"` // run index in its batch (informational)
	Tier     string `json:"tier"`

	Workload json.RawMessage `json:"workload"`

	Env Env `json:"env"`

	// ChooserSeed drives lazily drawn decisions in generating mode. When
	// Explicit is set, Decisions are used and absent decisions default to the
	// benign choice (fresh object, canonical order, no switch, no fault).
	ChooserSeed uint64           `json:"chooser_seed"`
	Rates       simrt.Rates      `json:"rates"`
	Explicit    bool             `json:"explicit"`
	Decisions   []simrt.Decision `json:"decisions,omitempty"`

	// set on plans written as replay files
	Expect *Violation `json:"expect,omitempty"`
}

type Env struct {
	BaseUnix int64  `json:"base_unix"` // simulated instant (seconds)
	Zone     string `json:"zone"`      // time.Local for the run
	Budget   uint64 `json:"budget"`    // max simulated events
}

func (e Env) Base() time.Time {
	if e.BaseUnix == 0 {
		return time.Date(2024, 3, 5, 12, 30, 45, 0, time.UTC)
	}
	return time.Unix(e.BaseUnix, 0).UTC()
}

type Violation struct {
	Class  string `json:"class"`  // stable class used by the shrinker ("same violation")
	Key    string `json:"key"`    // specific identity used by known_findings.txt
	Detail string `json:"detail"` // human text
}

type Result struct {
	Violation  *Violation
	Infra      string // infrastructure trouble (exit 2), never a violation
	Sig        uint64 // signature of the run for distinct counting
	NonTrivial bool
	Events     uint64
	Digest     uint64 // event-trace digest + outcome digest (determinism self-test)
	Evals      int    // how many simulated executions this plan performed (>=1)
	Faults     map[string]int
	Probes     map[string]int
	Recorded   []simrt.Decision
	Sample     interface{} // something printable describing the run
	// Sets: named hash sets measured per run (e.g. "interleavings" = hash of the
	// task-switch sequence, "states" = hashes of reached states); the batch reports
	// the number of distinct members of each set over all runs.
	Sets map[string][]uint64
	// Pinned, when set on a violating result, is an equivalent workload with
	// the failing choice made explicit (e.g. the one failing fault instant);
	// the shrinker starts from it if it reproduces.
	Pinned interface{}
}

// Property is implemented once per claimed property.
type Property interface {
	ID() string
	Generate(seed uint64, tier string) *Plan
	Run(p *Plan) *Result
	// Shrink proposes strictly smaller workloads (decisions are handled generically).
	Shrink(p *Plan) []*Plan
	// Rule is the evidence text: how cases are generated, what is non-trivial/distinct.
	Rule() string
	// Components lists real/stub components for the evidence.
	Assumptions() []string
}

var registry = map[string]Property{}

func Register(p Property)       { registry[p.ID()] = p }
func Lookup(id string) Property { return registry[id] }
func IDs() []string {
	var ids []string
	for k := range registry {
		ids = append(ids, k)
	}
	sort.Strings(ids)
	return ids
}

func Hash(parts ...interface{}) uint64 {
	h := fnv.New64a()
	for _, p := range parts {
		fmt.Fprintf(h, "%v\x00", p)
	}
	return h.Sum64()
}

func PropSeed(seed uint64, prop string, index uint64) uint64 {
	return simrt.Mix(seed, Hash(prop), index)
}

// BeginWorld installs a world for the plan (generating or explicit mode).
func BeginWorld(p *Plan, budget uint64, pristine bool) *simrt.World {
	w := &simrt.World{Rates: p.Rates, Budget: budget, Pristine: pristine, Record: true, BaseTime: p.Env.Base()}
	if os.Getenv("VERIF_TRACE") != "" {
		w.TraceFull = true
	}
	if p.Explicit {
		d := p.Decisions
		if d == nil {
			d = []simrt.Decision{}
		}
		simrt.Begin(w, p.ChooserSeed, d)
	} else {
		simrt.Begin(w, p.ChooserSeed, nil)
	}
	return w
}

// Clone makes a deep copy of the plan.
func (p *Plan) Clone() *Plan {
	q := *p
	q.Workload = append(json.RawMessage(nil), p.Workload...)
	q.Decisions = append([]simrt.Decision(nil), p.Decisions...)
	if p.Expect != nil {
		e := *p.Expect
		q.Expect = &e
	}
	return &q
}

func (p *Plan) SetWorkload(v interface{}) {
	b, err := json.Marshal(v)
	if err != nil {
		panic(err)
	}
	p.Workload = b
}

func (p *Plan) GetWorkload(v interface{}) error { return json.Unmarshal(p.Workload, v) }

// SafeRun runs a plan and converts a harness panic into an Infra result.
func SafeRun(prop Property, p *Plan) (res *Result) {
	defer func() {
		if r := recover(); r != nil {
			simrt.End()
			res = &Result{Infra: fmt.Sprintf("harness panic: %v", r)}
		}
	}()
	return prop.Run(p)
}

// Minimise shrinks a failing plan while the same violation class persists.
// It first turns a generating-mode plan into an explicit one.
func Minimise(prop Property, p *Plan, first *Result, maxRuns int) (*Plan, *Result, int) {
	return MinimiseWith(prop, p, first, maxRuns, func(q *Plan) *Result { return SafeRun(prop, q) })
}

// MinimiseWith is Minimise with a caller-supplied executor (in-process, or a
// fresh process per candidate when the violation depends on process state).
func MinimiseWith(prop Property, p *Plan, first *Result, maxRuns int, run func(q *Plan) *Result) (*Plan, *Result, int) {
	runs := 0
	class := first.Violation.Class
	same := func(q *Plan) *Result {
		runs++
		r := run(q)
		if r != nil && r.Infra == "" && r.Violation != nil && r.Violation.Class == class {
			return r
		}
		return nil
	}
	best, bestRes := p, first
	if !p.Explicit {
		q := p.Clone()
		q.Explicit = true
		q.Decisions = append([]simrt.Decision{}, first.Recorded...)
		if r := same(q); r != nil {
			best, bestRes = q, r
		} else {
			// explicit replay does not reproduce: keep the generating-mode plan (still a pure function of the plan)
			return p, first, runs
		}
	}
	if bestRes.Pinned != nil {
		q := best.Clone()
		q.SetWorkload(bestRes.Pinned)
		if r := same(q); r != nil {
			best, bestRes = q, r
		}
	}
	for progress := true; progress && runs < maxRuns; {
		progress = false
		// workload candidates
		for again := true; again && runs < maxRuns; {
			again = false
			for _, c := range prop.Shrink(best) {
				if runs >= maxRuns {
					break
				}
				if r := same(c); r != nil {
					best, bestRes = c, r
					again, progress = true, true
					break
				}
			}
		}
		// ddmin over decisions
		n := 2
		for len(best.Decisions) > 0 && runs < maxRuns {
			ds := best.Decisions
			chunk := (len(ds) + n - 1) / n
			reduced := false
			for i := 0; i < len(ds) && runs < maxRuns; i += chunk {
				j := i + chunk
				if j > len(ds) {
					j = len(ds)
				}
				c := best.Clone()
				c.Decisions = append(append([]simrt.Decision{}, ds[:i]...), ds[j:]...)
				if r := same(c); r != nil {
					best, bestRes = c, r
					reduced, progress = true, true
					if n > 2 {
						n--
					}
					break
				}
			}
			if !reduced {
				if chunk == 1 {
					break
				}
				n *= 2
				if n > len(ds) {
					n = len(ds)
				}
			}
		}
	}
	return best, bestRes, runs
}

// Guard runs f and reports a panic instead of propagating it; blown tells
// whether the simulated step budget ran out (a run that does not return).
func Guard(f func()) (panicked interface{}, blown bool) {
	defer func() {
		if r := recover(); r != nil {
			panicked = r
			blown = simrt.Blown()
		}
	}()
	f()
	return nil, simrt.Blown()
}

// Subcommands lets property packages add process entry points (fresh-process references).
var Subcommands = map[string]func(args []string) int{}
