package core

import (
	"bufio"
	"bytes"
	"encoding/binary"
	"encoding/json"
	"flag"
	"fmt"
	"os"
	"os/exec"
	"path/filepath"
	"runtime"
	"sort"
	"strconv"
	"strings"
	"time"

	"github.com/GuanceCloud/platypus/internal/simrt"
)

// Sizer is optionally implemented by properties to give the number of plans per tier.
type Sizer interface {
	Size(tier string) int
}

type WorkerOut struct {
	Plans      int               `json:"plans"`
	Evals      int               `json:"evals"`
	Events     uint64            `json:"events"`
	Sigs       []uint64          `json:"sigs"`    // distinct signatures of non-trivial runs
	AllSigs    int               `json:"allsigs"` // distinct signatures incl. trivial
	Faults     map[string]int    `json:"faults"`
	Probes     map[string]int    `json:"probes"`
	Samples    []json.RawMessage `json:"samples"`
	Digests    map[string]uint64 `json:"digests"` // index -> digest, for the determinism self-test
	Violations []ViolationOut    `json:"violations"`
	Infra      string            `json:"infra"`
	ShrinkRuns int               `json:"shrink_runs"`
	TimedOut   bool              `json:"timed_out"`
	Decisions  map[string]uint64 `json:"decisions"` // simulator decisions asked/fired per kind
	// violations observed in the worker process that do not reproduce from their plan alone
	SetNames         []string `json:"set_names"`
	Unreproduced     int    `json:"unreproduced"`
	UnreproducedNote string `json:"unreproduced_note"`
}

type ViolationOut struct {
	Violation Violation `json:"violation"`
	Index     uint64    `json:"index"`
	Replay    string    `json:"replay"`
	OrigSize  int       `json:"orig_size"`
	MinSize   int       `json:"min_size"`
}

func planSize(p *Plan) int { return len(p.Workload) + 16*len(p.Decisions) }

// WorkerMain: verifsim worker ...
func WorkerMain(args []string) int {
	fs := flag.NewFlagSet("worker", flag.ExitOnError)
	propID := fs.String("prop", "", "")
	tier := fs.String("tier", "quick", "")
	seed := fs.Uint64("seed", 1, "")
	from := fs.Uint64("from", 0, "")
	to := fs.Uint64("to", 0, "")
	stride := fs.Uint64("stride", 1, "")
	offset := fs.Uint64("offset", 0, "")
	maxSec := fs.Int("max-seconds", 0, "")
	digestsN := fs.Uint64("digests", 0, "record digests of the first N plans this process executes")
	limit := fs.Uint64("limit", 0, "stop after this many plans (0 = no limit)")
	replays := fs.String("replays", "", "directory for minimised plans")
	sigFile := fs.String("sigfile", "", "write the distinct non-trivial signatures here (binary, 8 bytes each) instead of returning them inline")
	noShrink := fs.Bool("no-shrink", false, "")
	_ = fs.Parse(args)
	prop := Lookup(*propID)
	if prop == nil {
		fmt.Fprintf(os.Stderr, "unknown property %q\n", *propID)
		return 2
	}
	out := WorkerOut{Faults: map[string]int{}, Probes: map[string]int{}, Digests: map[string]uint64{}, Decisions: map[string]uint64{}}
	sigNT := map[uint64]struct{}{}
	sigAll := map[uint64]struct{}{}
	sets := map[string]map[uint64]struct{}{}
	seenViol := map[string]bool{}
	violating := 0
	start := time.Now()
	for i := *from + *offset; i < *to; i += *stride {
		if *maxSec > 0 && i%16 == 0 && time.Since(start) > time.Duration(*maxSec)*time.Second {
			out.TimedOut = true
			break
		}
		if *limit > 0 && uint64(out.Plans) >= *limit {
			break
		}
		plan := prop.Generate(PropSeed(*seed, *propID, i), *tier)
		plan.Index = i
		plan.Tier = *tier
		res := SafeRun(prop, plan)
		if res.Infra != "" {
			out.Infra = fmt.Sprintf("index %d: %s", i, res.Infra)
			break
		}
		out.Plans++
		ev := res.Evals
		if ev < 1 {
			ev = 1
		}
		out.Evals += ev
		out.Events += res.Events
		sigAll[res.Sig] = struct{}{}
		if res.NonTrivial {
			sigNT[res.Sig] = struct{}{}
		}
		for k, v := range res.Faults {
			out.Faults[k] += v
		}
		for name, hs := range res.Sets {
			m := sets[name]
			if m == nil {
				m = map[uint64]struct{}{}
				sets[name] = m
			}
			for _, h := range hs {
				m[h] = struct{}{}
			}
		}
		for k, v := range res.Probes {
			if strings.HasPrefix(k, "max_") { // maxima are merged by max, counts by sum
				if v > out.Probes[k] {
					out.Probes[k] = v
				}
			} else {
				out.Probes[k] += v
			}
		}
		if uint64(out.Plans) <= *digestsN {
			out.Digests[strconv.FormatUint(i, 10)] = res.Digest
		}
		if len(out.Samples) < 2 && res.NonTrivial {
			s := map[string]interface{}{"index": i, "plan_workload": plan.Workload, "note": res.Sample,
				"rates": plan.Rates, "nondefault_decisions": len(res.Recorded)}
			b, _ := json.Marshal(s)
			out.Samples = append(out.Samples, b)
		}
		if res.Violation != nil {
			violating++
			if violating > 12 {
				// the batch fails anyway; do not grind through the rest of the slice on a badly broken tree
				out.TimedOut = true
				break
			}
			vk := res.Violation.Class + "|" + res.Violation.Key
			if seenViol[vk] || len(out.Violations) >= 4 {
				continue
			}
			seenViol[vk] = true
			min, minRes := plan, res
			path := ""
			if *replays != "" {
				_ = os.MkdirAll(*replays, 0o755)
				path = filepath.Join(*replays, fmt.Sprintf("%s-%d-%d.json", *propID, *seed, i))
			}
			fps, _ := prop.(interface{ FreshProcessShrink() bool })
			// the batch has failed already once a handful of minimised replays exist (all worker
			// processes write into the same directory): report this one unshrunk and stop
			enough := false
			if path != "" {
				if ms, _ := filepath.Glob(filepath.Join(*replays, fmt.Sprintf("%s-%d-*.json", *propID, *seed))); len(ms) >= 6 {
					enough = true
				}
			}
			if enough {
				q := plan
				if !plan.Explicit {
					q = plan.Clone()
					q.Explicit = true
					q.Decisions = append([]simrt.Decision{}, res.Recorded...)
				}
				if r := runInFreshProcess(q, path); r != nil && r.Violation != nil && r.Violation.Class == res.Violation.Class {
					q = q.Clone()
					v := *r.Violation
					q.Expect = &v
					b, _ := json.MarshalIndent(q, "", " ")
					_ = os.WriteFile(path, b, 0o644)
					out.Violations = append(out.Violations, ViolationOut{Violation: v, Index: i, Replay: path, OrigSize: planSize(plan), MinSize: planSize(q)})
				} else {
					out.Unreproduced++
				}
				out.TimedOut = true
				break
			}
			if !*noShrink && (fps == nil || !fps.FreshProcessShrink()) {
				var runs int
				min, minRes, runs = Minimise(prop, plan, res, 3000)
				out.ShrinkRuns += runs
			}
			if path != "" && !*noShrink && fps != nil && fps.FreshProcessShrink() {
				// every candidate of this property is executed in a fresh process (e.g. the race
				// detector reports each race only once per process)
				start := plan
				if !plan.Explicit {
					q := plan.Clone()
					q.Explicit = true
					q.Decisions = append([]simrt.Decision{}, res.Recorded...)
					start = q
				}
				if r0 := runInFreshProcess(start, path); r0 != nil && r0.Violation != nil && r0.Violation.Class == res.Violation.Class {
					r0.Pinned = nil
					var runs int
					t0 := time.Now()
					min, minRes, runs = MinimiseWith(prop, start, r0, 160, func(q *Plan) *Result {
						if time.Since(t0) > 90*time.Second { // wall-clock cap on process-per-candidate shrinking (affects only how small the replay gets)
							return nil
						}
						return runInFreshProcess(q, path)
					})
					out.ShrinkRuns += runs
				}
			}
			if path != "" && !*noShrink {
				// the minimised plan must fail the same way in a fresh process; if the
				// violation depends on process state the in-process shrinker may have been
				// misled: redo the minimisation with one fresh process per candidate.
				if r := runInFreshProcess(min, path); r == nil || r.Violation == nil || r.Violation.Class != res.Violation.Class {
					start := plan
					if !plan.Explicit {
						q := plan.Clone()
						q.Explicit = true
						q.Decisions = append([]simrt.Decision{}, res.Recorded...)
						start = q
					}
					if r0 := runInFreshProcess(start, path); r0 != nil && r0.Violation != nil && r0.Violation.Class == res.Violation.Class {
						r0.Pinned = nil
						var runs int
						t0 := time.Now()
						min, minRes, runs = MinimiseWith(prop, start, r0, 150, func(q *Plan) *Result {
							if time.Since(t0) > 90*time.Second {
								return nil
							}
							return runInFreshProcess(q, path)
						})
						out.ShrinkRuns += runs
					} else {
						// seen inside this worker process only: the plan alone does not fail in a
						// fresh process, so the outcome depended on earlier plans of this process.
						// Not reportable as a replayable violation; keep searching.
						out.Unreproduced++
						if out.UnreproducedNote == "" {
							out.UnreproducedNote = fmt.Sprintf("plan %d: %s: %s", i, res.Violation.Class, tail(res.Violation.Detail, 1500))
						}
						delete(seenViol, vk)
						continue
					}
				}
			}
			seenViol[minRes.Violation.Class+"|"+minRes.Violation.Key] = true
			min = min.Clone()
			v := *minRes.Violation
			min.Expect = &v
			if path != "" {
				b, _ := json.MarshalIndent(min, "", " ")
				if err := os.WriteFile(path, b, 0o644); err != nil {
					out.Infra = err.Error()
				}
			}
			out.Violations = append(out.Violations, ViolationOut{Violation: v, Index: i, Replay: path,
				OrigSize: planSize(plan), MinSize: planSize(min)})
		}
	}
	if *sigFile != "" {
		buf := make([]byte, 0, 8*len(sigNT))
		for s := range sigNT {
			buf = binary.LittleEndian.AppendUint64(buf, s)
		}
		if err := os.WriteFile(*sigFile, buf, 0o644); err != nil {
			out.Infra = err.Error()
		}
		for name, m := range sets {
			b := make([]byte, 0, 8*len(m))
			for h := range m {
				b = binary.LittleEndian.AppendUint64(b, h)
			}
			if err := os.WriteFile(*sigFile+".set."+name, b, 0o644); err != nil {
				out.Infra = err.Error()
			}
			out.SetNames = append(out.SetNames, name)
		}
	} else {
		for s := range sigNT {
			out.Sigs = append(out.Sigs, s)
		}
	}
	out.AllSigs = len(sigAll)
	// (scripts under test may print to stdout without a trailing newline: printf)
	os.Stdout.WriteString("\n")
	enc := json.NewEncoder(os.Stdout)
	if err := enc.Encode(&out); err != nil {
		return 2
	}
	return 0
}

// runInFreshProcess executes a plan through `verifsim replay` in a new process
// and returns its violation (nil result on trouble).
func runInFreshProcess(p *Plan, path string) *Result {
	self, err := os.Executable()
	if err != nil {
		return nil
	}
	q := p.Clone()
	q.Expect = nil
	b, _ := json.Marshal(q)
	tmp := path + ".cand"
	if os.WriteFile(tmp, b, 0o644) != nil {
		return nil
	}
	defer os.Remove(tmp)
	cmd := exec.Command(self, "replay", "-quiet", "-file", tmp)
	cmd.Env = append(os.Environ(), "GOMAXPROCS=1")
	outb, _ := cmd.Output()
	for _, line := range strings.Split(string(outb), "\n") {
		if strings.HasPrefix(line, "REPLAY-RESULT ") {
			var v Violation
			if json.Unmarshal([]byte(strings.TrimPrefix(line, "REPLAY-RESULT ")), &v) == nil {
				return &Result{Violation: &v}
			}
		}
	}
	return &Result{}
}

// ReplayMain: verifsim replay -file f ; exit 1 + VIOLATION line when the plan fails as expected,
// 0 when it holds, 2 when it fails differently from plan.Expect ("replay diverged").
func ReplayMain(args []string) int {
	fs := flag.NewFlagSet("replay", flag.ExitOnError)
	file := fs.String("file", "", "")
	quiet := fs.Bool("quiet", false, "")
	_ = fs.Parse(args)
	b, err := os.ReadFile(*file)
	if err != nil {
		fmt.Fprintln(os.Stderr, err)
		return 2
	}
	var plan Plan
	if err := json.Unmarshal(b, &plan); err != nil {
		fmt.Fprintln(os.Stderr, err)
		return 2
	}
	prop := Lookup(plan.Property)
	if prop == nil {
		fmt.Fprintf(os.Stderr, "unknown property %q\n", plan.Property)
		return 2
	}
	res := SafeRun(prop, &plan)
	if res.Infra != "" {
		fmt.Fprintln(os.Stderr, "INFRA:", res.Infra)
		return 2
	}
	if res.Violation == nil {
		if !*quiet {
			fmt.Printf("replay: property %s held on this plan (digest %016x)\n", plan.Property, res.Digest)
		}
		return 0
	}
	j, _ := json.Marshal(res.Violation)
	fmt.Printf("REPLAY-RESULT %s\n", j)
	if !*quiet {
		fmt.Printf("VIOLATION property=%s replay=%s\n", plan.Property, *file)
		fmt.Printf("  class:  %s\n  key:    %s\n  detail: %s\n", res.Violation.Class, res.Violation.Key, res.Violation.Detail)
	}
	if plan.Expect != nil && plan.Expect.Class != res.Violation.Class {
		fmt.Fprintf(os.Stderr, "INFRA: replay diverged: expected class %q, got %q\n", plan.Expect.Class, res.Violation.Class)
		return 2
	}
	return 1
}

type KnownFinding struct {
	Property, Key, Text string
}

// LoadKnown parses known_findings.txt: lines
//
//	finding: property=<id> key=<key> :: <what fails>
//	fixed: property=<id> <commit> <what failed>       (suppresses nothing)
func LoadKnown(path string) []KnownFinding {
	var out []KnownFinding
	f, err := os.Open(path)
	if err != nil {
		return nil
	}
	defer f.Close()
	sc := bufio.NewScanner(f)
	for sc.Scan() {
		line := strings.TrimSpace(sc.Text())
		if !strings.HasPrefix(line, "finding:") {
			continue
		}
		rest := strings.TrimSpace(strings.TrimPrefix(line, "finding:"))
		text := ""
		if i := strings.Index(rest, "::"); i >= 0 {
			text = strings.TrimSpace(rest[i+2:])
			rest = strings.TrimSpace(rest[:i])
		}
		kf := KnownFinding{Text: text}
		for _, f := range strings.Fields(rest) {
			if strings.HasPrefix(f, "property=") {
				kf.Property = strings.TrimPrefix(f, "property=")
			}
			if strings.HasPrefix(f, "key=") {
				kf.Key = strings.TrimPrefix(f, "key=")
			}
		}
		if kf.Property != "" && kf.Key != "" {
			out = append(out, kf)
		}
	}
	return out
}

// BatchMain: verifsim batch ...
func BatchMain(args []string) int {
	fs := flag.NewFlagSet("batch", flag.ExitOnError)
	propID := fs.String("prop", "", "")
	tier := fs.String("tier", "quick", "")
	seed := fs.Uint64("seed", 1, "")
	n := fs.Uint64("n", 0, "plans (0 = property default for the tier)")
	workers := fs.Int("workers", runtime.NumCPU(), "")
	maxSec := fs.Int("max-seconds", 0, "")
	evidence := fs.String("evidence", "", "")
	replays := fs.String("replays", "", "")
	known := fs.String("known", "", "")
	extra := fs.String("extra", "", "JSON object merged into evidence coverage (rewrite counts etc.)")
	selfN := fs.Uint64("selftest", 0, "determinism self-test: re-run this many plans in other processes (0 = 32 quick / 208 thorough; 16 per re-run process)")
	_ = fs.Parse(args)
	t0 := time.Now()
	prop := Lookup(*propID)
	if prop == nil {
		fmt.Fprintf(os.Stderr, "INFRA: unknown property %q\n", *propID)
		return 2
	}
	if *n == 0 {
		if s, ok := prop.(Sizer); ok {
			*n = uint64(s.Size(*tier))
		} else {
			*n = 1000
		}
	}
	if v := os.Getenv("VERIF_RUNS"); v != "" {
		if x, err := strconv.ParseUint(v, 10, 64); err == nil {
			*n = x
		}
	}
	if *workers < 1 {
		*workers = 1
	}
	if uint64(*workers) > *n {
		*workers = int(*n)
	}
	if *selfN == 0 {
		*selfN = 32
		if *tier == "thorough" {
			*selfN = 208
		}
	}
	if *selfN > *n {
		*selfN = *n
	}
	if *replays != "" {
		// replay files of an earlier batch with the same property and seed would be mistaken for this batch's
		if old, _ := filepath.Glob(filepath.Join(*replays, fmt.Sprintf("%s-%d-*.json*", *propID, *seed))); len(old) > 0 {
			for _, f := range old {
				_ = os.Remove(f)
			}
		}
	}
	fmt.Printf("verifsim: property=%s tier=%s VERIF_SEED=%d plans=%d workers=%d\n", *propID, *tier, *seed, *n, *workers)
	self, _ := os.Executable()
	type wres struct {
		out WorkerOut
		err error
		raw string
	}
	runWorker := func(gomaxprocs int, wargs ...string) wres {
		cmd := exec.Command(self, append([]string{"worker"}, wargs...)...)
		cmd.Env = append(os.Environ(), fmt.Sprintf("GOMAXPROCS=%d", gomaxprocs))
		var stdout, stderr bytes.Buffer
		cmd.Stdout = &stdout
		cmd.Stderr = &stderr
		err := cmd.Run()
		var r wres
		if err != nil {
			r.err = fmt.Errorf("%v: %s", err, tail(stderr.String(), 4000))
			return r
		}
		// the last line is the JSON document
		lines := strings.Split(strings.TrimSpace(stdout.String()), "\n")
		if e := json.Unmarshal([]byte(lines[len(lines)-1]), &r.out); e != nil {
			r.err = fmt.Errorf("bad worker output: %v: %s / %s", e, tail(stdout.String(), 2000), tail(stderr.String(), 2000))
		}
		return r
	}
	common := []string{"-prop", *propID, "-tier", *tier, "-seed", fmt.Sprint(*seed), "-from", "0", "-to", fmt.Sprint(*n),
		"-stride", fmt.Sprint(*workers), "-max-seconds", fmt.Sprint(*maxSec), "-digests", "16"}
	if *replays != "" {
		common = append(common, "-replays", *replays)
	}
	// Process-start state is a sampled dimension too: a property may ask for K short-lived
	// worker processes per core instead of one long-lived one (more "first operations of a process").
	jobs := *workers
	if c, ok := prop.(interface{ ProcessesPerWorker(tier string) int }); ok {
		if k := c.ProcessesPerWorker(*tier); k > 1 {
			jobs = *workers * k
			if uint64(jobs) > *n {
				jobs = int(*n)
			}
		}
	}
	for i, a := range common {
		if a == "-stride" {
			common[i+1] = fmt.Sprint(jobs)
		}
	}
	results := make([]wres, jobs)
	done := make(chan int)
	sem := make(chan struct{}, *workers)
	sigDir, err := os.MkdirTemp(filepath.Dir(self), "sigs")
	if err != nil {
		fmt.Fprintf(os.Stderr, "INFRA: %v\n", err)
		return 2
	}
	defer os.RemoveAll(sigDir)
	for w := 0; w < jobs; w++ {
		go func(w int) {
			sem <- struct{}{}
			results[w] = runWorker(1, append(append([]string{}, common...), "-offset", fmt.Sprint(w), "-sigfile", filepath.Join(sigDir, fmt.Sprintf("w%d.bin", w)))...)
			<-sem
			done <- w
		}(w)
	}
	for w := 0; w < jobs; w++ {
		<-done
	}
	agg := WorkerOut{Faults: map[string]int{}, Probes: map[string]int{}, Digests: map[string]uint64{}}
	var sigList []uint64
	for w, r := range results {
		if r.err != nil {
			fmt.Fprintf(os.Stderr, "INFRA: worker %d: %v\n", w, r.err)
			return 2
		}
		if r.out.Infra != "" {
			fmt.Fprintf(os.Stderr, "INFRA: worker %d: %s\n", w, r.out.Infra)
			return 2
		}
		agg.Plans += r.out.Plans
		agg.Evals += r.out.Evals
		agg.Events += r.out.Events
		agg.AllSigs += r.out.AllSigs
		agg.ShrinkRuns += r.out.ShrinkRuns
		agg.TimedOut = agg.TimedOut || r.out.TimedOut
		sigList = append(sigList, r.out.Sigs...)
		if b, err := os.ReadFile(filepath.Join(sigDir, fmt.Sprintf("w%d.bin", w))); err == nil {
			for i := 0; i+8 <= len(b); i += 8 {
				sigList = append(sigList, binary.LittleEndian.Uint64(b[i:]))
			}
		}
		for k, v := range r.out.Faults {
			agg.Faults[k] += v
		}
		for k, v := range r.out.Probes {
			if strings.HasPrefix(k, "max_") {
				if v > agg.Probes[k] {
					agg.Probes[k] = v
				}
			} else {
				agg.Probes[k] += v
			}
		}
		for k, v := range r.out.Digests {
			agg.Digests[k] = v
		}
		if len(agg.Samples) < 3 {
			agg.Samples = append(agg.Samples, r.out.Samples...)
		}
		agg.Violations = append(agg.Violations, r.out.Violations...)
		agg.Unreproduced += r.out.Unreproduced
		if agg.UnreproducedNote == "" {
			agg.UnreproducedNote = r.out.UnreproducedNote
		}
	}
	distinct := func(l []uint64) int {
		sort.Slice(l, func(i, j int) bool { return l[i] < l[j] })
		n := 0
		for i := range l {
			if i == 0 || l[i] != l[i-1] {
				n++
			}
		}
		return n
	}
	nsigs := distinct(sigList)
	sigList = nil
	setCounts := map[string]int{}
	setNames := map[string]bool{}
	for _, r := range results {
		for _, n := range r.out.SetNames {
			setNames[n] = true
		}
	}
	for name := range setNames {
		var l []uint64
		for w := range results {
			if b, err := os.ReadFile(filepath.Join(sigDir, fmt.Sprintf("w%d.bin.set.%s", w, name))); err == nil {
				for i := 0; i+8 <= len(b); i += 8 {
					l = append(l, binary.LittleEndian.Uint64(b[i:]))
				}
			}
		}
		setCounts["distinct_"+name] = distinct(l)
	}
	// determinism self-test: same plans, other processes, other GOMAXPROCS
	selfPairs := 0
	selfProcs := 0
	selfFail := ""
	if *selfN > 0 {
		// Each re-run process repeats the FIRST 16 plans of one worker job (same offset and stride),
		// so that it has exactly the process history the original had: a legitimate process-level
		// cache in the code under test must not look like nondeterminism. 2 jobs in the quick tier,
		// 13 in the thorough tier, each at GOMAXPROCS 4 and 16.
		type job struct {
			gmp    int
			offset int
		}
		var sjobs []job
		njobs := int((*selfN + 15) / 16)
		if njobs > jobs {
			njobs = jobs
		}
		for _, gmp := range []int{4, 16} {
			for j := 0; j < njobs; j++ {
				sjobs = append(sjobs, job{gmp, j})
			}
		}
		outs := make([]wres, len(sjobs))
		sem2 := make(chan struct{}, *workers)
		fin := make(chan int)
		for ji, j := range sjobs {
			go func(ji int, j job) {
				sem2 <- struct{}{}
				outs[ji] = runWorker(j.gmp, "-prop", *propID, "-tier", *tier, "-seed", fmt.Sprint(*seed), "-from", "0", "-to", fmt.Sprint(*n),
					"-stride", fmt.Sprint(jobs), "-offset", fmt.Sprint(j.offset), "-limit", "16", "-digests", "16", "-no-shrink")
				<-sem2
				fin <- ji
			}(ji, j)
		}
		for range sjobs {
			<-fin
		}
		jobsList := sjobs
		for ji, r := range outs {
			gmp := jobsList[ji].gmp
			selfProcs++
			if r.err != nil || r.out.Infra != "" {
				fmt.Fprintf(os.Stderr, "INFRA: determinism self-test worker: %v %s\n", r.err, r.out.Infra)
				return 2
			}
			for k, v := range r.out.Digests {
				if a, ok := agg.Digests[k]; ok {
					selfPairs++
					if a != v && selfFail == "" {
						selfFail = fmt.Sprintf("determinism self-test failed: plan %s digest %016x vs %016x (GOMAXPROCS=%d)", k, a, v, gmp)
					}
				}
			}
		}
	}
	// violations: verify each replay in a fresh process, split known findings
	knownList := LoadKnown(*known)
	sort.Slice(agg.Violations, func(i, j int) bool { return agg.Violations[i].Index < agg.Violations[j].Index })
	var fresh []ViolationOut
	knownHit := map[string]int{}
	seen := map[string]bool{}
	for _, v := range agg.Violations {
		id := v.Violation.Class + "|" + v.Violation.Key
		if seen[id] {
			continue
		}
		seen[id] = true
		isKnown := false
		for _, k := range knownList {
			if k.Property == *propID && k.Key == v.Violation.Key {
				knownHit[k.Key]++
				isKnown = true
			}
		}
		if isKnown {
			continue
		}
		if v.Replay != "" {
			// (up to three attempts: the race detector keeps a bounded, randomly evicted access history
			// per memory word, so a report on a heavily used word is not guaranteed on every execution)
			code := 0
			var outb []byte
			for attempt := 0; attempt < 3 && code != 1; attempt++ {
				cmd := exec.Command(self, "replay", "-quiet", "-file", v.Replay)
				cmd.Env = append(os.Environ(), "GOMAXPROCS=1")
				var err error
				outb, err = cmd.CombinedOutput()
				code = 0
				if ee, ok := err.(*exec.ExitError); ok {
					code = ee.ExitCode()
				} else if err != nil {
					code = 2
				}
			}
			if code != 1 {
				fmt.Fprintf(os.Stderr, "INFRA: replay of %s in a fresh process did not reproduce the violation (exit %d): %s\n", v.Replay, code, tail(string(outb), 2000))
				return 2
			}
		}
		fresh = append(fresh, v)
	}
	for _, k := range knownList {
		if k.Property == *propID {
			hit := "not hit in this batch"
			if knownHit[k.Key] > 0 {
				hit = "reproduced in this batch"
			}
			fmt.Printf("KNOWN-FINDING: property=%s %s [key=%s; %s]\n", *propID, k.Text, k.Key, hit)
		}
	}
	wall := time.Since(t0).Seconds()
	// evidence
	if *evidence != "" {
		cov := map[string]interface{}{
			"evaluations":         agg.Evals,
			"plans":               agg.Plans,
			"distinct_nontrivial": nsigs,
			"rule":                prop.Rule(),
			"samples":             agg.Samples,
			"simulated_events":    agg.Events,
			"fault_kinds_fired":   agg.Faults,
			"reach_probes":        agg.Probes,
			"runs_per_hour":       int(float64(agg.Evals) / wall * 3600),
			"plans_per_hour":      int(float64(agg.Plans) / wall * 3600),
			"determinism_pairs":   selfPairs,
			"shrink_runs":         agg.ShrinkRuns,
			"stopped_by_time_cap": agg.TimedOut,
			"workers":             *workers,
			"worker_processes":    jobs,
			"known_findings_hit":  knownHit,
			"distinct_sets":       setCounts,
			"determinism_processes": selfProcs,
			"real_components": []string{"lexer", "goyacc parser", "AST", "v1 and v2 check passes", "v1 and v2 interpreters",
				"all builtins and their third-party engines", "input.Point", "errchain", "engine loader/linker", "CLI run package"},
			"stubbed_components": []string{"sync.Pool -> simrt.Pool", "map iteration order -> simrt.Iter", "time.Now -> simrt.Now",
				"time.Local (set per plan)", "zap loggers -> no-op", "host signal", "probe builtins added to the function tables"},
			"exhaustive": false,
		}
		if *extra != "" {
			var ex map[string]interface{}
			if json.Unmarshal([]byte(*extra), &ex) == nil {
				for k, v := range ex {
					cov[k] = v
				}
			}
		}
		ev := map[string]interface{}{
			"property_id": *propID, "tier": *tier, "seed": *seed, "level": "exploration",
			"coverage": cov, "assumptions": prop.Assumptions(), "wall_s": wall, "violations": len(fresh),
		}
		b, _ := json.MarshalIndent(ev, "", " ")
		_ = os.MkdirAll(filepath.Dir(*evidence), 0o755)
		if err := os.WriteFile(*evidence, b, 0o644); err != nil {
			fmt.Fprintf(os.Stderr, "INFRA: %v\n", err)
			return 2
		}
	}
	fmt.Printf("verifsim: %d plans, %d simulated runs, %d distinct non-trivial, %d events, %.1fs, faults=%v\n",
		agg.Plans, agg.Evals, nsigs, agg.Events, wall, agg.Faults)
	if len(fresh) == 0 && agg.Unreproduced > 0 {
		fmt.Fprintf(os.Stderr, "INFRA: %d violation(s) were observed inside worker processes but none reproduces from its plan alone in a fresh process (the outcome depended on earlier plans run by the same process); first: %s\n", agg.Unreproduced, agg.UnreproducedNote)
		return 2
	}
	if len(fresh) == 0 && selfFail != "" {
		// the same plan gave different event traces in two processes and no property violation explains it
		fmt.Fprintf(os.Stderr, "INFRA: %s\n", selfFail)
		return 2
	}
	if len(fresh) > 0 {
		for _, v := range fresh {
			fmt.Printf("VIOLATION property=%s replay=%s\n", *propID, v.Replay)
			fmt.Printf("  class=%s key=%s\n  %s\n  (plan size %d -> %d after minimisation)\n", v.Violation.Class, v.Violation.Key, v.Violation.Detail, v.OrigSize, v.MinSize)
		}
		return 1
	}
	if nsigs < 2 {
		fmt.Fprintf(os.Stderr, "INFRA: fewer than 2 distinct non-trivial runs - the workload explores nothing\n")
		return 2
	}
	return 0
}

func tail(s string, n int) string {
	if len(s) > n {
		return "..." + s[len(s)-n:]
	}
	return s
}

var _ = simrt.Mix
