// Package c09 decides property C09: use() linking accepts exactly the acyclic,
// fully resolvable script sets, with the same verdict in every loader visiting
// order, correct bindings and well-formed error chains.
//
// The "schedule" is the order in which the loader's two map iterations visit
// the set; the instrumenter hands that order to the simulator.
package c09

import (
	"fmt"
	"sort"
	"strings"

	"github.com/GuanceCloud/platypus/internal/simrt"
	"github.com/GuanceCloud/platypus/internal/verifsim/core"
	"github.com/GuanceCloud/platypus/internal/verifsim/plenv"
	"github.com/GuanceCloud/platypus/pkg/engine"
	"github.com/GuanceCloud/platypus/pkg/engine/runtime"
	"github.com/GuanceCloud/platypus/pkg/errchain"
	"github.com/GuanceCloud/platypus/pkg/inimpl/guancecloud/input"
)

type Call struct {
	Target string `json:"target"`
	Wrap   string `json:"wrap,omitempty"` // "" or a key of wraps
	Lay    int    `json:"lay,omitempty"`  // layout variant of the call text (same tokens, same position of the name)
}

// wraps are the syntactic contexts a use() call can sit in: every one is reachable at run time, so
// the call must be linked (resolved, cycle-checked, bound) exactly like a top-level call.
type wrap struct {
	pre    []string
	indent int
	post   []string
}

var wraps = map[string]wrap{
	"":     {},
	"if":   {pre: []string{"if true {"}, indent: 2, post: []string{"}"}},
	"for":  {pre: []string{"for i = 0; i < 1; i = i + 1 {"}, indent: 2, post: []string{"}"}},
	"else": {pre: []string{"if false {", "  add_key(zz_never, 1)", "} else {"}, indent: 2, post: []string{"}"}},
	"elif": {pre: []string{"if false {", "  add_key(zz_never, 1)", "} elif true {"}, indent: 2, post: []string{"}"}},
	// the loop forms, with the call after a conditional jump of the same body
	"forin":      {pre: []string{"for x in [1] {"}, indent: 2, post: []string{"}"}},
	"forin_map":  {pre: []string{"for k in {\"a\": 1} {"}, indent: 2, post: []string{"}"}},
	"forin_str":  {pre: []string{"for ch in \"a\" {"}, indent: 2, post: []string{"}"}},
	"after_cont": {pre: []string{"for i = 0; i < 1; i = i + 1 {", "  if i == 5 {", "    continue", "  }"}, indent: 2, post: []string{"}"}},
	"after_brk":  {pre: []string{"for x in [1, 2] {", "  if x == 7 {", "    break", "  }"}, indent: 2, post: []string{"}"}},
	"before_brk": {pre: []string{"for ;; {"}, indent: 2, post: []string{"  break", "}"}},
	"nested":     {pre: []string{"for i = 0; i < 1; i = i + 1 {", "  if true {", "    for y in \"a\" {"}, indent: 6, post: []string{"    }", "  }", "}"}},
	"if_in_if":   {pre: []string{"if true {", "  if 1 < 2 {"}, indent: 4, post: []string{"  } else {", "    add_key(zz_never, 1)", "  }", "}"}},
}

var wrapNames = []string{"if", "for", "else", "elif", "forin", "forin_map", "forin_str", "after_cont", "after_brk", "before_brk", "nested", "if_in_if"}

func useText(c Call) string {
	switch c.Lay {
	case 1:
		return fmt.Sprintf("use (%q)", c.Target)
	case 2:
		return fmt.Sprintf("use( %q ) # use(\"zz.p\")", c.Target)
	case 3:
		// the keyword spelling of the documented prototype `fn use(name: str)`: an implementation
		// either rejects it at check time or treats it exactly like the positional call
		return fmt.Sprintf("use(name=%q)", c.Target)
	}
	return fmt.Sprintf("use(%q)", c.Target)
}

// keywordFormAccepted asks the implementation under test whether it accepts use(name="...").
func keywordFormAccepted(calls map[string]runtime.FuncCall, checks map[string]runtime.FuncCheck) bool {
	okM, _ := engine.ParseScript(map[string]string{"kwa.p": "use(name=\"kwb.p\")\n", "kwb.p": "add_key(kwb, 1)\n"}, calls, checks)
	return okM["kwa.p"] != nil
}


type Script struct {
	Name  string `json:"name"`
	Kind  string `json:"kind"` // ok, parse_err, check_err
	Calls []Call `json:"calls,omitempty"`
	// position of the broken line among the calls (check_err / parse_err)
	BadAt int `json:"bad_at,omitempty"`
	// BadText selects the text of a parse_err script's broken line(s): grammar errors, lexical
	// errors (the lexer stops with an error token), two diagnostics, an unterminated block
	BadText int `json:"bad_text,omitempty"`
}

type Workload struct {
	Scripts []Script `json:"scripts"`
	Loads   int      `json:"loads"` // how many times the set is loaded (each under simulator-chosen orders)
}

type Prop struct{}

func (Prop) ID() string { return "C09" }
func (Prop) Size(tier string) int {
	if tier == "thorough" {
		return 15000000
	}
	return 60000
}
func (Prop) Rule() string {
	return "plan = script set of 1-5 scripts (each valid / unparsable / check-failing, 0-3 use() calls to members, itself or a missing name, at top level or inside any statement context: if/elif/else, the three-clause for, for-in over list/map/string, after a conditional break/continue, nested; positional and keyword spelling; missing names incl. ones a path/case normalisation would map onto a member; biased to diamonds, repeated callees, self loops, 2- and 3-cycles, broken leaves under chains) loaded several times, each load under simulator-chosen visiting orders of the loader's map iterations; evaluation = one load; non-trivial = the set has at least one use edge and at least one load ran under a non-canonical order; distinct = hash of (set shape, orders drawn)"
}
func (Prop) Assumptions() []string {
	return []string{
		"reference verdict: a script is accepted iff it parses and checks, every script reachable through use edges exists and parses and checks, and no reachable chain returns to a script on the chain",
		"error-chain oracle demands validity, not a particular choice among several legitimate root causes",
		"a cycle's root-cause entry may be positioned at any use call site that lies on the reported chain (file and position must belong together)",
	}
}

// ---------------------------------------------------------------------------

type site struct {
	Ln, Col int
	Target  string
}

type rendered struct {
	src   map[string]string
	sites map[string][]site
}

func render(w *Workload) rendered {
	r := rendered{src: map[string]string{}, sites: map[string][]site{}}
	for _, s := range w.Scripts {
		var b strings.Builder
		ln := 1
		line := func(t string) { b.WriteString(t); b.WriteString("\n"); ln++ }
		line(fmt.Sprintf("add_key(mark_%s, 1)", ident(s.Name)))
		bad := func() {
			switch s.Kind {
			case "parse_err":
				switch s.BadText {
				case 1:
					// two diagnostics in one script: a non-fatal one (slice bound type) and a syntax error
					line("x = y[1.5:2]")
					line("z w")
				case 2:
					line("$") // lexical error on a line of its own, after complete statements
				case 3:
					line("b = \"unterminated")
				case 4:
					line(")")
				case 5:
					line("if a {") // never closed
				default:
					line("a = = 1")
				}
			case "check_err":
				line("no_such_function(1)")
			}
		}
		for i, c := range s.Calls {
			if i == s.BadAt {
				bad()
			}
			wr := wraps[c.Wrap]
			for _, l := range wr.pre {
				line(l)
			}
			r.sites[s.Name] = append(r.sites[s.Name], site{Ln: ln, Col: 1 + wr.indent, Target: c.Target})
			line(strings.Repeat(" ", wr.indent) + useText(c))
			for _, l := range wr.post {
				line(l)
			}
		}
		if s.BadAt >= len(s.Calls) {
			bad()
		}
		r.src[s.Name] = b.String()
	}
	return r
}

// model ---------------------------------------------------------------------

type model struct {
	kind  map[string]string
	calls map[string][]Call
}

func newModel(w *Workload) *model {
	m := &model{kind: map[string]string{}, calls: map[string][]Call{}}
	for _, s := range w.Scripts {
		m.kind[s.Name] = s.Kind
		m.calls[s.Name] = s.Calls
	}
	return m
}

func (m *model) accept(s string, path map[string]bool) bool {
	if m.kind[s] != "ok" || path[s] {
		return false
	}
	path[s] = true
	defer delete(path, s)
	for _, c := range m.calls[s] {
		if !m.accept(c.Target, path) {
			return false
		}
	}
	return true
}

// reach returns the ok-kind scripts reachable from s (incl. s) through ok-kind scripts.
func (m *model) reach(s string) map[string]bool {
	seen := map[string]bool{}
	var rec func(x string)
	rec = func(x string) {
		if seen[x] || m.kind[x] != "ok" {
			return
		}
		seen[x] = true
		for _, c := range m.calls[x] {
			rec(c.Target)
		}
	}
	rec(s)
	return seen
}

// onCycle reports whether s can reach itself through ok-kind scripts.
func (m *model) onCycle(s string) bool {
	seen := map[string]bool{}
	var rec func(x string) bool
	rec = func(x string) bool {
		for _, c := range m.calls[x] {
			if c.Target == s {
				return true
			}
			if m.kind[c.Target] == "ok" && !seen[c.Target] {
				seen[c.Target] = true
				if rec(c.Target) {
					return true
				}
			}
		}
		return false
	}
	return m.kind[s] == "ok" && rec(s)
}

// ---------------------------------------------------------------------------

func gen(r *simrt.RNG) Workload {
	n := 1 + r.Intn(5)
	maxCalls := 4
	if r.Intn(20) == 0 {
		// occasionally a large set: thresholds on counts (more than 8 scripts, many calls per script)
		n = 6 + r.Intn(4)
		maxCalls = 5
	}
	names := make([]string, n)
	for i := range names {
		names[i] = fmt.Sprintf("s%d.p", i)
	}
	if r.Intn(4) == 0 && n <= 10 {
		// near-colliding names: prefixes, case, extensions, path-like names
		pool := []string{"s1.p", "s10.p", "S1.p", "s1.ppl", "s1.p.p", "a.p", "ab.p", "lib/a.p", "zz.p1", "s1"}
		for i := range names {
			j := r.Intn(len(pool))
			names[i] = pool[j]
			pool = append(pool[:j], pool[j+1:]...)
		}
	}
	pBroken := []float64{0, 0.1, 0.25}[r.Intn(3)]
	pMissing := []float64{0, 0.05, 0.15}[r.Intn(3)]
	pSelf := []float64{0, 0.03}[r.Intn(2)]
	forward := r.Intn(3) == 0 // mostly-forward edges: more accepted sets, diamonds, repeated callees
	w := Workload{Loads: 3 + r.Intn(6)}
	for i := 0; i < n; i++ {
		s := Script{Name: names[i], Kind: "ok"}
		if r.Chance(pBroken) {
			if r.Intn(2) == 0 {
				s.Kind = "parse_err"
			} else {
				s.Kind = "check_err"
			}
		}
		nc := r.Intn(maxCalls)
		for j := 0; j < nc; j++ {
			var t string
			switch {
			case r.Chance(pMissing):
				t = "zz.p"
				if r.Intn(3) == 0 {
					// a missing name that some normalisation (path cleaning, case folding, trimming) would
					// map onto a member of the set: still a missing name
					x := names[r.Intn(n)]
					t = []string{"lib/" + x, "./" + x, "../" + x, x + "/", strings.ToUpper(x), x + " ", " " + x, "/" + x}[r.Intn(8)]
				}
			case r.Chance(pSelf):
				t = names[i]
			case forward && i+1 < n:
				t = names[i+1+r.Intn(n-i-1)]
			case j > 0 && r.Intn(4) == 0:
				t = s.Calls[j-1].Target // repeated callee
			default:
				t = names[r.Intn(n)]
				if t == names[i] && !r.Chance(pSelf) {
					t = names[(i+1)%n]
				}
			}
			c := Call{Target: t, Lay: r.Intn(3)}
			if r.Intn(12) == 0 {
				c.Lay = 3
			}
			switch r.Intn(6) {
			case 0:
				c.Wrap = "if"
			case 1:
				c.Wrap = "for"
			case 2:
				c.Wrap = wrapNames[r.Intn(len(wrapNames))]
			}
			s.Calls = append(s.Calls, c)
		}
		s.BadAt = r.Intn(len(s.Calls) + 1)
		if s.Kind == "parse_err" {
			s.BadText = r.Intn(6)
		}
		w.Scripts = append(w.Scripts, s)
	}
	return w
}

func (Prop) Generate(seed uint64, tier string) *core.Plan {
	r := simrt.NewRNG(seed)
	w := gen(r)
	p := &core.Plan{Property: "C09", Version: core.HarnessVersion, Seed: seed, Tier: tier,
		ChooserSeed: simrt.Mix(seed, 9),
		Rates:       simrt.Rates{Recycle: 0.7, Purge: 0.01, Shuffle: []float64{0.5, 0.9, 1}[r.Intn(3)]},
	}
	p.SetWorkload(&w)
	return p
}

type loadOut struct {
	ok   map[string]*runtime.Script
	errs map[string]error
}

func errText(e error) string {
	if e == nil {
		return "<nil>"
	}
	if pe, ok := e.(*errchain.PlError); ok {
		return fmt.Sprintf("%q %v", pe.Err, pe.PosChain)
	}
	return "non-PlError: " + e.Error()
}

func (Prop) Run(p *core.Plan) *core.Result {
	plenv.Quiet()
	var w Workload
	if err := p.GetWorkload(&w); err != nil {
		return &core.Result{Infra: "bad workload: " + err.Error()}
	}
	res := &core.Result{Faults: map[string]int{}, Probes: map[string]int{}}
	world := core.BeginWorld(p, 40000000, false)
	defer func() {
		res.Recorded = simrt.End()
		res.Events = world.Events
		res.Digest ^= world.Digest
		if world.Blown && res.Violation == nil && res.Infra == "" {
			res.Infra = "step budget exceeded in the loader"
		}
	}()
	calls, checks := plenv.Tables(nil, nil)
	// scripts that spell a call use(name="x"): where the implementation rejects that form they are
	// check-failing scripts (the call itself is the broken line), where it accepts the form the call
	// is a use call like any other
	hasKw := false
	for _, s := range w.Scripts {
		for _, c := range s.Calls {
			hasKw = hasKw || c.Lay == 3
		}
	}
	if hasKw && !keywordFormAccepted(calls, checks) {
		for i := range w.Scripts {
			for _, c := range w.Scripts[i].Calls {
				if c.Lay == 3 && w.Scripts[i].Kind == "ok" {
					w.Scripts[i].Kind, w.Scripts[i].BadAt = "check_err", -1
				}
			}
		}
		res.Probes["sets_with_keyword_form_rejected"]++
	}
	rd := render(&w)
	m := newModel(&w)
	viol := func(class, key, detail string) *core.Result {
		res.Violation = &core.Violation{Class: "C09/" + class, Key: key, Detail: detail + "\nset: " + describe(&w)}
		res.NonTrivial = true
		return res
	}
	nedges := 0
	for _, s := range w.Scripts {
		nedges += len(s.Calls)
	}
	// own errors of broken scripts, each loaded alone in pristine order
	own := map[string]*errchain.PlError{}
	for _, s := range w.Scripts {
		if s.Kind == "ok" {
			continue
		}
		_, errs := engine.ParseScript(map[string]string{s.Name: rd.src[s.Name]}, calls, checks)
		if errs[s.Name] == nil {
			// the broken texts are fixed and objectively invalid (an unknown function, a syntax or
			// lexical error): accepting one is a wrong verdict, not a harness matter
			return viol("wrong-accept", "broken-script-accepted", fmt.Sprintf("script %s (%s) was accepted when loaded alone:\n%s", s.Name, s.Kind, rd.src[s.Name]))
		}
		e, ok := errs[s.Name].(*errchain.PlError)
		if !ok || e == nil {
			// the broken script's own error is of another error type (several diagnostics?): its
			// referrers are still held to the chain clause, only the verbatim-front comparison is skipped
			continue
		}
		own[s.Name] = e.Copy()
	}
	expectOK := map[string]bool{}
	for _, s := range w.Scripts {
		expectOK[s.Name] = m.accept(s.Name, map[string]bool{})
	}
	var first map[string]bool
	loads := w.Loads
	if loads < 1 {
		loads = 1
	}
	shuffledBefore := world.Fired[simrt.KMapOrd]
	for l := 0; l < loads; l++ {
		src := map[string]string{}
		for k, v := range rd.src {
			src[k] = v
		}
		okM, errM := engine.ParseScript(src, calls, checks)
		res.Evals++
		got := map[string]bool{}
		for _, s := range w.Scripts {
			_, a := okM[s.Name]
			_, b := errM[s.Name]
			if a == b {
				return viol("partition", "partition", fmt.Sprintf("load %d: script %s is in both or neither result map (accepted=%v, error=%v)", l, s.Name, a, b))
			}
			got[s.Name] = a
		}
		if len(okM)+len(errM) != len(w.Scripts) {
			return viol("partition", "partition", fmt.Sprintf("load %d: result maps name %d scripts, the set has %d", l, len(okM)+len(errM), len(w.Scripts)))
		}
		res.Digest ^= core.Hash(l, fmt.Sprint(got))
		// 2. stability across orders (checked first: it needs no model)
		if first == nil {
			first = got
		} else {
			for _, s := range w.Scripts {
				if first[s.Name] != got[s.Name] {
					return viol("unstable-verdict", "unstable-verdict", fmt.Sprintf("script %s: accepted=%v in load 0 but accepted=%v in load %d (only the loader's visiting order differs); error: %s",
						s.Name, first[s.Name], got[s.Name], l, errText(pick(errM, s.Name))))
				}
			}
		}
		// 1. verdict vs model
		for _, s := range w.Scripts {
			if got[s.Name] != expectOK[s.Name] {
				cls, key := "wrong-reject", "wrong-reject"
				if got[s.Name] {
					cls, key = "wrong-accept", "wrong-accept"
				}
				return viol(cls, key, fmt.Sprintf("load %d: script %s accepted=%v, reference model says %v; error: %s", l, s.Name, got[s.Name], expectOK[s.Name], errText(pick(errM, s.Name))))
			}
		}
		// 3. bindings
		for _, s := range w.Scripts {
			sc := okM[s.Name]
			if sc == nil {
				continue
			}
			bound := map[[2]int]*runtime.Script{}
			for _, ce := range sc.CallRef {
				if ps, ok := ce.PrivateData.(*runtime.Script); ok {
					bound[[2]int{ce.NamePos.Ln, ce.NamePos.Col}] = ps
				} else {
					bound[[2]int{ce.NamePos.Ln, ce.NamePos.Col}] = nil
				}
			}
			for _, st := range rd.sites[s.Name] {
				b, seen := bound[[2]int{st.Ln, st.Col}]
				if !seen {
					return viol("binding", "binding-missing", fmt.Sprintf("load %d: accepted script %s: use(%q) at %d:%d is not among the recorded call sites", l, s.Name, st.Target, st.Ln, st.Col))
				}
				if b == nil || b != okM[st.Target] {
					return viol("binding", "binding-wrong", fmt.Sprintf("load %d: accepted script %s: use(%q) at %d:%d is bound to %v, want the accepted script of that name", l, s.Name, st.Target, st.Ln, st.Col, nameOf(b)))
				}
			}
			// run it: marks of exactly the reachable scripts
			pt := input.GetPoint()
			input.InitPt(pt, "m", nil, map[string]any{"message": "x"}, world.BaseTime)
			rerr := sc.Run(pt, nil)
			var marks []string
			byIdent := map[string]string{}
			for _, x := range w.Scripts {
				byIdent[ident(x.Name)] = x.Name
			}
			for k := range pt.Fields {
				if strings.HasPrefix(k, "mark_") {
					marks = append(marks, byIdent[strings.TrimPrefix(k, "mark_")])
				}
			}
			input.PutPoint(pt)
			sort.Strings(marks)
			var want []string
			for k := range m.reach(s.Name) {
				want = append(want, k)
			}
			sort.Strings(want)
			if rerr != nil || fmt.Sprint(marks) != fmt.Sprint(want) {
				return viol("binding", "binding-run", fmt.Sprintf("load %d: running accepted script %s left marks %v (err %v), want %v", l, s.Name, marks, rerr, want))
			}
			res.Probes["accepted_scripts_run"]++
		}
		// 4. error shape
		for _, s := range w.Scripts {
			e := errM[s.Name]
			if e == nil {
				continue
			}
			pe, ok := e.(*errchain.PlError)
			if s.Kind != "ok" && (!ok || pe == nil) {
				continue // the broken script's own diagnostics may be of any error type
			}
			if !ok || pe == nil || len(pe.PosChain) == 0 {
				return viol("error-shape", "error-not-chain", fmt.Sprintf("load %d: rejected script %s: error has no position chain: %s", l, s.Name, errText(e)))
			}
			if s.Kind != "ok" {
				if own[s.Name] != nil && !sameErr(pe, own[s.Name]) {
					return viol("error-altered", "stored-error-altered", fmt.Sprintf("load %d: the stored error of %s is %s, loading it alone gives %s", l, s.Name, errText(pe), errText(own[s.Name])))
				}
				continue
			}
			if why := validChain(s.Name, pe, m, rd, own, res); why != "" {
				return viol("error-shape", "bad-chain", fmt.Sprintf("load %d: rejected script %s: %s; error: %s", l, s.Name, why, errText(pe)))
			}
		}
	}
	orders := world.Fired[simrt.KMapOrd] - shuffledBefore
	res.Faults["map_order_permuted"] = int(orders)
	res.NonTrivial = nedges > 0 && orders > 0
	nacc := 0
	for _, v := range expectOK {
		if v {
			nacc++
		}
	}
	if nacc > 0 && nacc < len(w.Scripts) {
		res.Probes["mixed_verdict_sets"]++
	}
	// reach probes: which shapes this set contains
	for _, sc := range w.Scripts {
		seen := map[string]int{}
		for _, c := range sc.Calls {
			seen[c.Target]++
			if _, ok := m.kind[c.Target]; !ok {
				res.Probes["shape_missing_callee"]++
			} else if m.kind[c.Target] != "ok" {
				res.Probes["shape_broken_callee"]++
			}
			if c.Target == sc.Name {
				res.Probes["shape_self_loop"]++
			}
		}
		for _, n := range seen {
			if n > 1 {
				res.Probes["shape_repeated_callee"]++
			}
		}
		// diamond: some script reachable from this one along two different first edges
		if sc.Kind == "ok" {
			first := map[string]map[string]bool{}
			for _, c := range sc.Calls {
				if first[c.Target] == nil {
					first[c.Target] = m.reach(c.Target)
				}
			}
			cnt := map[string]int{}
			for _, r := range first {
				for x := range r {
					cnt[x]++
				}
			}
			for _, n := range cnt {
				if n > 1 {
					res.Probes["shape_two_paths_to_one_script"]++
					break
				}
			}
			if !expectOK[sc.Name] && m.onCycle(sc.Name) {
				res.Probes["shape_on_cycle"]++
			}
		}
	}
	res.Sig = core.Hash(describe(&w), world.Digest)
	res.Sample = describe(&w)
	return res
}

func pick(m map[string]error, k string) error { return m[k] }

func nameOf(s *runtime.Script) string {
	if s == nil {
		return "<nothing>"
	}
	return "script " + s.Name
}

func sameErr(a, b *errchain.PlError) bool {
	if a == nil || b == nil {
		return a == b
	}
	if a.Err != b.Err || len(a.PosChain) != len(b.PosChain) {
		return false
	}
	for i := range a.PosChain {
		if a.PosChain[i] != b.PosChain[i] {
			return false
		}
	}
	return true
}

func siteAt(rd rendered, file string, ln, col int) *site {
	for i := range rd.sites[file] {
		if rd.sites[file][i].Ln == ln && rd.sites[file][i].Col == col {
			return &rd.sites[file][i]
		}
	}
	return nil
}

// walk checks that rest is a chain of use call sites leading from cur outward to s.
func walk(rest []errchain.Position, cur, s string, m *model, rd rendered) string {
	for i, e := range rest {
		if m.kind[e.File] != "ok" {
			return fmt.Sprintf("chain entry %d names %q which is not a loadable script of the set", i, e.File)
		}
		st := siteAt(rd, e.File, e.Ln, e.Col)
		if st == nil {
			return fmt.Sprintf("chain entry %s:%d:%d is not the position of a use call in %s", e.File, e.Ln, e.Col, e.File)
		}
		if st.Target != cur {
			return fmt.Sprintf("chain entry %s:%d:%d is the call use(%q), but the previous entry is in %s", e.File, e.Ln, e.Col, st.Target, cur)
		}
		cur = e.File
	}
	if cur != s {
		return fmt.Sprintf("chain ends in %s, not in the rejected script %s", cur, s)
	}
	return ""
}

// validChain returns "" when pe is a legitimate error for the ok-kind script s
// that the model rejects: a legitimate root cause first, then call sites outward to s.
func validChain(s string, pe *errchain.PlError, m *model, rd rendered, own map[string]*errchain.PlError, res *core.Result) string {
	reach := m.reach(s)
	var reasons []string
	// (a) a broken reachable script, its own error verbatim at the front
	rk := make([]string, 0, len(reach))
	for c := range reach {
		rk = append(rk, c)
	}
	sort.Strings(rk)
	for _, c := range rk {
		for _, call := range m.calls[c] {
			r := call.Target
			o := own[r]
			if o == nil {
				continue
			}
			if pe.Err != o.Err || len(pe.PosChain) < len(o.PosChain) {
				continue
			}
			match := true
			for i := range o.PosChain {
				if pe.PosChain[i] != o.PosChain[i] {
					match = false
				}
			}
			if !match {
				continue
			}
			why := walk(pe.PosChain[len(o.PosChain):], r, s, m, rd)
			if why == "" {
				res.Probes["root_cause_broken_callee"]++
				return ""
			}
			reasons = append(reasons, "as error of "+r+": "+why)
		}
	}
	e0 := pe.PosChain[0]
	// (b) missing callee: positioned at the use call naming it
	if st := siteAt(rd, e0.File, e0.Ln, e0.Col); st != nil && reach[e0.File] {
		if _, exists := m.kind[st.Target]; !exists {
			if !strings.Contains(pe.Err, st.Target) {
				reasons = append(reasons, fmt.Sprintf("positioned at use(%q) of a missing script but the message does not name it", st.Target))
			} else if why := walk(pe.PosChain[1:], e0.File, s, m, rd); why == "" {
				res.Probes["root_cause_missing_callee"]++
				return ""
			} else {
				reasons = append(reasons, "as missing-callee error: "+why)
			}
		}
	}
	// (c) cycle: root-cause entry + chain starting at the call that closes the cycle
	if strings.Contains(strings.ToLower(pe.Err), "circular") || strings.Contains(strings.ToLower(pe.Err), "cycl") {
		if len(pe.PosChain) < 2 {
			reasons = append(reasons, "cycle error without a call-site chain")
		} else {
			chain := pe.PosChain[1:]
			e1 := chain[0]
			st := siteAt(rd, e1.File, e1.Ln, e1.Col)
			switch {
			case st == nil:
				reasons = append(reasons, fmt.Sprintf("cycle chain entry %s:%d:%d is not a use call in %s", e1.File, e1.Ln, e1.Col, e1.File))
			case !reach[e1.File]:
				reasons = append(reasons, fmt.Sprintf("cycle chain starts in %s which is not reachable from %s", e1.File, s))
			default:
				onChain := false
				for _, e := range chain {
					if e.File == st.Target {
						onChain = true
					}
				}
				if !onChain {
					reasons = append(reasons, fmt.Sprintf("the closing call use(%q) at %s:%d:%d does not return to a script on the reported chain", st.Target, e1.File, e1.Ln, e1.Col))
				} else if why := walk(chain[1:], e1.File, s, m, rd); why != "" {
					reasons = append(reasons, "as cycle error: "+why)
				} else {
					// root-cause entry: file and position must belong together and lie on the chain
					okPos := false
					for _, e := range chain {
						if e.File == e0.File && e.Ln == e0.Ln && e.Col == e0.Col {
							okPos = true
						}
					}
					if okPos {
						res.Probes["root_cause_cycle"]++
						return ""
					}
					reasons = append(reasons, fmt.Sprintf("cycle root-cause entry %s:%d:%d is not one of the use call sites of the reported chain (file and position do not belong together)", e0.File, e0.Ln, e0.Col))
				}
			}
		}
	}
	// (c') cycle reported in the other natural style: the root-cause entry IS the closing call,
	// followed by the call sites outward (no separate entry for the root script)
	if strings.Contains(strings.ToLower(pe.Err), "circular") || strings.Contains(strings.ToLower(pe.Err), "cycl") {
		if st := siteAt(rd, e0.File, e0.Ln, e0.Col); st != nil && reach[e0.File] {
			onChain := st.Target == e0.File
			for _, e := range pe.PosChain[1:] {
				if e.File == st.Target {
					onChain = true
				}
			}
			if onChain && walk(pe.PosChain[1:], e0.File, s, m, rd) == "" {
				res.Probes["root_cause_cycle"]++
				return ""
			}
		}
	}
	if len(reasons) == 0 {
		return "its root cause is none of: error of a reachable broken script, missing callee at its use call, circular dependency"
	}
	sort.Strings(reasons)
	return strings.Join(reasons, " | ")
}

// ident turns a script name into an identifier fragment (distinct names stay distinct).
func ident(name string) string {
	var b strings.Builder
	for _, c := range name {
		switch {
		case c >= 'a' && c <= 'z', c >= '0' && c <= '9':
			b.WriteRune(c)
		case c >= 'A' && c <= 'Z':
			b.WriteString("U")
			b.WriteRune(c)
		default:
			fmt.Fprintf(&b, "_%d_", c)
		}
	}
	return b.String()
}

func describe(w *Workload) string {
	var parts []string
	for _, s := range w.Scripts {
		var cs []string
		for _, c := range s.Calls {
			t := strings.TrimSuffix(c.Target, ".p")
			if c.Wrap != "" {
				t = c.Wrap + ":" + t
			}
			cs = append(cs, t)
		}
		k := ""
		if s.Kind != "ok" {
			k = "!" + s.Kind
		}
		parts = append(parts, fmt.Sprintf("%s%s{%s}", strings.TrimSuffix(s.Name, ".p"), k, strings.Join(cs, ",")))
	}
	return strings.Join(parts, " ")
}

func (Prop) Shrink(p *core.Plan) []*core.Plan {
	var w Workload
	if p.GetWorkload(&w) != nil {
		return nil
	}
	var out []*core.Plan
	mk := func(nw Workload) {
		q := p.Clone()
		q.SetWorkload(&nw)
		out = append(out, q)
	}
	cp := func() Workload {
		nw := Workload{Loads: w.Loads}
		for _, s := range w.Scripts {
			s.Calls = append([]Call(nil), s.Calls...)
			nw.Scripts = append(nw.Scripts, s)
		}
		return nw
	}
	// drop a script
	for i := range w.Scripts {
		nw := cp()
		nw.Scripts = append(nw.Scripts[:i], nw.Scripts[i+1:]...)
		mk(nw)
	}
	// drop a call
	for i := range w.Scripts {
		for j := range w.Scripts[i].Calls {
			nw := cp()
			nw.Scripts[i].Calls = append(nw.Scripts[i].Calls[:j], nw.Scripts[i].Calls[j+1:]...)
			if nw.Scripts[i].BadAt > len(nw.Scripts[i].Calls) {
				nw.Scripts[i].BadAt = len(nw.Scripts[i].Calls)
			}
			mk(nw)
		}
	}
	// simplify
	for i := range w.Scripts {
		if w.Scripts[i].Kind != "ok" {
			nw := cp()
			nw.Scripts[i].Kind = "ok"
			mk(nw)
		}
		for j := range w.Scripts[i].Calls {
			if w.Scripts[i].Calls[j].Wrap != "" {
				nw := cp()
				nw.Scripts[i].Calls[j].Wrap = ""
				mk(nw)
			}
		}
	}
	for _, l := range []int{1, 2, w.Loads / 2, w.Loads - 1} {
		if l >= 1 && l < w.Loads {
			nw := cp()
			nw.Loads = l
			mk(nw)
		}
	}
	return out
}
