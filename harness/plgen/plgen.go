// Package plgen is the small structured workload language shared by the
// harnesses: statements the generators understand exactly, rendered to
// platypus source with known positions.
package plgen

import (
	"fmt"
	"strings"
)

// Stmt is one statement of the workload language.
type Stmt struct {
	K    string `json:"k"`              // p, inc, set, for, forin, if, break, continue, use, exit, raw
	N    int64  `json:"n,omitempty"`    // probe id / literal
	V    string `json:"v,omitempty"`    // variable
	Init string `json:"init,omitempty"` // for: rendered clauses (effect-free)
	Cond string `json:"cond,omitempty"`
	Post string `json:"post,omitempty"`
	Iter string `json:"iter,omitempty"` // forin: literal
	Body []Stmt `json:"body,omitempty"`
	Else []Stmt `json:"else,omitempty"`
	Has  bool   `json:"has_else,omitempty"`
	Arg  string `json:"arg,omitempty"`  // use: callee name; raw: text; set: rhs
	Op   string `json:"op,omitempty"`   // raw: meaning for the harness's model
	Arg2 string `json:"arg2,omitempty"` // raw: second operand for the model
	// if: further `elif` branches between Body and Else
	Elifs []Branch `json:"elifs,omitempty"`
}

// Branch is one `elif cond { body }` part of an if statement.
type Branch struct {
	Cond string `json:"cond"`
	N    int64  `json:"n,omitempty"` // model: 1 = condition holds
	Body []Stmt `json:"body,omitempty"`
}

// Pos is a 1-based line/column of a rendered statement's first token.
type Pos struct{ Ln, Col int }

// Render renders statements one per line; positions of statements are
// reported through visit (pre-order).
func Render(stmts []Stmt, visit func(s *Stmt, p Pos)) string {
	var b strings.Builder
	ln := 1
	var rec func(ss []Stmt, ind int)
	line := func(ind int, text string) {
		b.WriteString(strings.Repeat("  ", ind))
		b.WriteString(text)
		b.WriteString("\n")
		ln++
	}
	rec = func(ss []Stmt, ind int) {
		for i := range ss {
			s := &ss[i]
			if visit != nil {
				visit(s, Pos{Ln: ln, Col: 2*ind + 1})
			}
			switch s.K {
			case "p":
				line(ind, fmt.Sprintf("p(%d)", s.N))
			case "inc":
				line(ind, fmt.Sprintf("%s = %s + 1", s.V, s.V))
			case "set":
				line(ind, fmt.Sprintf("%s = %s", s.V, s.Arg))
			case "raw":
				line(ind, s.Arg)
			case "break":
				line(ind, "break")
			case "continue":
				line(ind, "continue")
			case "exit":
				line(ind, "exit()")
			case "use":
				// N selects a layout variant (same tokens, same position of the name)
				switch s.N % 3 {
				case 1:
					line(ind, fmt.Sprintf("use (%q)", s.Arg))
				case 2:
					line(ind, fmt.Sprintf("use( %q ) # use(\"zz.p\")", s.Arg))
				default:
					line(ind, fmt.Sprintf("use(%q)", s.Arg))
				}
			case "for":
				line(ind, fmt.Sprintf("for %s; %s; %s {", s.Init, s.Cond, s.Post))
				rec(s.Body, ind+1)
				line(ind, "}")
			case "forin":
				line(ind, fmt.Sprintf("for %s in %s {", s.V, s.Iter))
				rec(s.Body, ind+1)
				line(ind, "}")
			case "if":
				line(ind, fmt.Sprintf("if %s {", s.Cond))
				rec(s.Body, ind+1)
				for bi := range s.Elifs {
					line(ind, fmt.Sprintf("} elif %s {", s.Elifs[bi].Cond))
					rec(s.Elifs[bi].Body, ind+1)
				}
				if s.Has {
					line(ind, "} else {")
					rec(s.Else, ind+1)
				}
				line(ind, "}")
			default:
				panic("plgen: unknown stmt kind " + s.K)
			}
		}
	}
	rec(stmts, 0)
	return b.String()
}

// Count returns the number of statements (recursively).
func Count(ss []Stmt) int {
	n := 0
	for i := range ss {
		n += 1 + Count(ss[i].Body) + Count(ss[i].Else)
		for _, b := range ss[i].Elifs {
			n += Count(b.Body)
		}
	}
	return n
}

// ShrinkStmts proposes smaller statement lists: drop one statement, replace a
// compound statement by its body, shrink inside.
func ShrinkStmts(ss []Stmt) [][]Stmt {
	var out [][]Stmt
	cp := func(x []Stmt) []Stmt { return append([]Stmt(nil), x...) }
	// drop halves first for long lists
	if len(ss) >= 4 {
		out = append(out, cp(ss[:len(ss)/2]), cp(ss[len(ss)/2:]))
	}
	for i := range ss {
		c := append(cp(ss[:i]), ss[i+1:]...)
		out = append(out, c)
	}
	for i := range ss {
		s := ss[i]
		if len(s.Body) > 0 || len(s.Else) > 0 {
			if s.K == "if" || s.K == "for" || s.K == "forin" {
				// hoist the body
				c := append(cp(ss[:i]), append(cp(s.Body), ss[i+1:]...)...)
				if !hasLoopCtl(s.Body) || s.K == "if" {
					out = append(out, c)
				}
			}
			for _, b := range ShrinkStmts(s.Body) {
				c := cp(ss)
				n := s
				n.Body = b
				c[i] = n
				out = append(out, c)
			}
			for _, b := range ShrinkStmts(s.Else) {
				c := cp(ss)
				n := s
				n.Else = b
				c[i] = n
				out = append(out, c)
			}
		}
		if len(s.Elifs) > 0 {
			// drop one elif branch, or shrink inside one
			for bi := range s.Elifs {
				c := cp(ss)
				n := s
				n.Elifs = append(append([]Branch(nil), s.Elifs[:bi]...), s.Elifs[bi+1:]...)
				c[i] = n
				out = append(out, c)
				for _, b := range ShrinkStmts(s.Elifs[bi].Body) {
					c := cp(ss)
					n := s
					n.Elifs = append([]Branch(nil), s.Elifs...)
					n.Elifs[bi].Body = b
					c[i] = n
					out = append(out, c)
				}
			}
		}
	}
	return out
}

func hasLoopCtl(ss []Stmt) bool {
	for i := range ss {
		switch ss[i].K {
		case "break", "continue":
			return true
		case "if":
			if hasLoopCtl(ss[i].Body) || hasLoopCtl(ss[i].Else) {
				return true
			}
		}
	}
	return false
}
