// Package c10 decides property C10: the point's key index always agrees with
// its tags and fields.
//
// Several points are processed by interleaved caller tasks whose index entries
// (TFMeta), Points and Tasks are recycled through simulator-controlled pools;
// operations can be cut short by conversion errors and by cancellation. After
// every operation the invariants are evaluated on the task's own point, and the
// task's observations must equal those of the same history run alone with
// always-fresh pools.
package c10

import (
	"fmt"
	"math"
	"sort"
	"strings"

	"github.com/GuanceCloud/platypus/internal/simrt"
	"github.com/GuanceCloud/platypus/internal/verifsim/core"
	"github.com/GuanceCloud/platypus/internal/verifsim/plenv"
	"github.com/GuanceCloud/platypus/pkg/ast"
	"github.com/GuanceCloud/platypus/pkg/engine"
	"github.com/GuanceCloud/platypus/pkg/engine/runtime"
	"github.com/GuanceCloud/platypus/pkg/errchain"
	"github.com/GuanceCloud/platypus/pkg/inimpl/guancecloud/input"
)

var alphabet = []string{"f1", "t1", "message", "n1", "n2", "pl_msg", "sp k"}

type Op struct {
	Op  string `json:"op"`            // add_key, add_key1, set_tag, set_tag1, set_tag_var, add_key_var, drop_key, rename, cast, set_measurement, default_time, grok
	K   string `json:"k,omitempty"`   // key (rename: to)
	K2  string `json:"k2,omitempty"`  // rename: from
	Lit string `json:"lit,omitempty"` // literal text / cast type / pattern
}

type Segment struct {
	F1       string `json:"f1"`  // kind of the initial field f1: int64,int,uint8,float32,float64,string,bool,nil,nan
	Msg      string `json:"msg"` // initial message
	Ops      []Op   `json:"ops"`
	CancelAt int    `json:"cancel_at"` // the host signal turns true during the chk after this op index; -1 never
	// Sparse: 0 = the probe runs after every operation; n > 0 = only after every
	// (n+1)-th operation, so that operations run back to back without the probe's
	// own reads in between (a read can hide or heal a stale lookup state).
	Sparse int `json:"sparse,omitempty"`
	// NoTags: the host passes a nil tag map (text input has no tags)
	NoTags bool `json:"no_tags,omitempty"`
	// ManyTags: the host passes this many additional tags (x0000, x0001, ...): wide points, around
	// sizes where limits and container growth live
	ManyTags int `json:"many_tags,omitempty"`
	// Reuse: the host initialises the point object of the previous segment again without handing it
	// back to the pool in between (a batch loop that keeps one point). InitPt on a live point must
	// behave like InitPt on a fresh one; the solo reference always takes a fresh point.
	Reuse bool `json:"reuse,omitempty"`
	// Own: the host's point is a plain &Point{} of its own, never taken from or handed to the pool
	Own bool `json:"own,omitempty"`
}

type Workload struct {
	Tasks [][]Segment `json:"tasks"`
}

type Prop struct{}

func (Prop) ID() string { return "C10" }
func (Prop) Size(tier string) int {
	if tier == "thorough" {
		return 1500000
	}
	return 40000
}
func (Prop) Rule() string {
	return "plan = 1-4 caller tasks, each a list of segments (fresh or recycled point initialised with a field of a host-supplied Go type, a tag, a message; 1-25 builtin operations add_key/set_tag/drop_key/rename/cast/set_measurement(delete)/default_time/grok over keys {f1,t1,message,_,n1,n2} and all value kinds incl. lists/maps/NaN-in-list; optional cancellation after op k; local variables named like keys; the host may keep a point object across records or own it instead of using the pool; wide points; tags holding timestamps), interleaved at every yield point with simulator-chosen recycling of TFMeta/Point/Task objects; evaluation = one execution of a plan's histories (solo reference or interleaved); non-trivial = at least 2 operations, and a pooled object was recycled or a task switch happened; distinct = hash of (histories, switch and recycle decisions)"
}
func (Prop) Assumptions() []string {
	return []string{
		"initial points are what a host may pass: supported field types, no key present as both tag and field",
		"operations are issued by real builtins through real scripts (Mv2Tag and KeyTime2Time have no builtin caller and are not driven)",
		"effect oracles are narrow: drop_key(k) removes k; rename(to, from) with from present moves value and kind; everything else is covered by the invariants and by equality with the solo fresh-pool run",
	}
}

// ---------------------------------------------------------------------------
// generation

// (the last two evaluate to "no value": an attribute expression and a call without a result)
var lits = []string{"nil", "true", "false", "5", "-3", "1.5", `"s"`, `""`, `"12"`, "[1, 2]", `{"a": 1}`, "[]", `"2024-01-02 03:04:05"`, "zz.attr", "drop_key(nokey)",
	`"1700000000123456789"`, `"-9007199254740993"`, `"123456789012345678901234567890"`, `"1e3"`, `"0x1f"`, `" 42 "`, "9223372036854775807", "1e300", "-0.0"}

func genOp(r *simrt.RNG, renameBias float64) Op {
	keys := []string{"f1", "t1", "message", "_", "n1", "n2", "`sp k`"}
	k := keys[r.Intn(len(keys))]
	if r.Intn(12) == 0 {
		// further keys (not read back by the probe's script-level reads, but covered by the invariants):
		// many keys on one point, long names
		k = []string{"x1", "x2", "x3", "x4", "x5", "x6", "x7", "x8", "x9", "a_rather_long_key_name_0123456789_0123456789_0123456789"}[r.Intn(10)]
	}
	if r.Chance(renameBias) {
		k2 := keys[r.Intn(len(keys))]
		return Op{Op: "rename", K: k, K2: k2}
	}
	if r.Intn(8) == 0 {
		// the other builtins that write a field through the same point API
		switch r.Intn(8) {
		case 0:
			return Op{Op: "raw1", K: k, Lit: "uppercase"}
		case 1:
			return Op{Op: "raw1", K: k, Lit: "trim"}
		case 2:
			return Op{Op: "raw1", K: k, Lit: "url_decode"}
		case 3:
			return Op{Op: "raw1", K: k, Lit: "sql_cover"}
		case 4:
			return Op{Op: "replace", K: k, Lit: []string{"[a-z]+", "\\d", "l+"}[r.Intn(3)]}
		case 5:
			return Op{Op: "strfmt", K: k, K2: keys[r.Intn(len(keys))]}
		case 6:
			return Op{Op: "xml", K: k}
		default:
			return Op{Op: "datetime", K: k, Lit: []string{"RFC3339", "ANSIC", "nope"}[r.Intn(3)]}
		}
	}
	if r.Intn(16) == 0 {
		// a local variable named like a key: builtins that read their operand "variables first"
		// (cast, one-argument add_key / set_tag, strfmt arguments ...) then see the variable's value -
		// of any kind, lists and maps included - and write it to the point under that name
		return Op{Op: "shadow", K: []string{"n1", "n2", "f1", "t1", "message", "pl_msg"}[r.Intn(6)],
			Lit: []string{"[1, 2]", `{"a": 1}`, `"x"`, "5", "nil", "1.5", "true", "[f_nan]", `"77"`, "[]"}[r.Intn(10)]}
	}
	switch r.Intn(14) {
	case 0, 1, 2:
		return Op{Op: "add_key", K: k, Lit: lits[r.Intn(len(lits))]}
	case 3:
		return Op{Op: "add_key1", K: k}
	case 4:
		return Op{Op: "set_tag", K: k, Lit: []string{`"tv"`, `""`, `"7"`, `"2024-01-02 03:04:05"`, `"1700000000"`}[r.Intn(5)]}
	case 5:
		return Op{Op: "set_tag1", K: k}
	case 6:
		return Op{Op: "set_tag_var", K: k, Lit: []string{"[1, 2]", `{"a": 1}`, "nil", "5", "[f_nan]", "1.5", "true"}[r.Intn(7)]}
	case 7:
		return Op{Op: "add_key_var", K: k, Lit: []string{"[f_nan]", `{"x": f_nan}`, "[1, [2]]", "f_nan"}[r.Intn(4)]}
	case 8, 9:
		return Op{Op: "drop_key", K: k}
	case 10:
		return Op{Op: "cast", K: k, Lit: []string{"int", "float", "bool", "str"}[r.Intn(4)]}
	case 11:
		return Op{Op: "set_measurement", K: k}
	case 12:
		return Op{Op: "default_time", K: k}
	default:
		return Op{Op: "grok", K: k, Lit: []string{`%{WORD:n1} %{NUMBER:n2:int}`, `%{WORD:t1} %{NUMBER:f1:float}`, `%{NOTSPACE:n1}`}[r.Intn(3)]}
	}
}

func (Prop) Generate(seed uint64, tier string) *core.Plan {
	r := simrt.NewRNG(seed)
	nt := 1 + r.Intn(4)
	maxOps := []int{3, 8, 25}[r.Intn(3)]
	if r.Intn(25) == 0 {
		maxOps = 90 // occasionally a long history on one point
	}
	renameBias := []float64{0, 0.08, 0.2}[r.Intn(3)]
	pCancel := []float64{0, 0.2}[r.Intn(2)]
	sparse := []int{0, 2, 30}[r.Intn(3)]
	f1kinds := []string{"int64", "int", "uint8", "float32", "float64", "string", "bool", "nil", "nan"}
	w := Workload{}
	for t := 0; t < nt; t++ {
		ns := 1 + r.Intn(3)
		var segs []Segment
		for s := 0; s < ns; s++ {
			sg := Segment{F1: f1kinds[r.Intn(len(f1kinds))], Msg: []string{"hello 42", "x", "", "2024-01-02 03:04:05", "<a><b>t</b></a>"}[r.Intn(5)], CancelAt: -1}
			n := 1 + r.Intn(maxOps)
			for i := 0; i < n; i++ {
				sg.Ops = append(sg.Ops, genOp(r, renameBias))
			}
			if r.Chance(pCancel) {
				sg.CancelAt = r.Intn(n)
			}
			if sparse > 0 && r.Intn(2) == 0 {
				sg.Sparse = 1 + r.Intn(sparse)
			}
			sg.NoTags = r.Intn(4) == 0
			switch r.Intn(10) {
			case 0:
				sg.Reuse = s > 0
			case 1:
				sg.Own = true
			}
			if r.Intn(24) == 0 {
				sg.ManyTags = []int{7, 8, 63, 64, 127, 128, 255, 256, 257, 300, 1024}[r.Intn(11)]
				sg.NoTags = false
			}
			segs = append(segs, sg)
		}
		w.Tasks = append(w.Tasks, segs)
	}
	p := &core.Plan{Property: "C10", Version: core.HarnessVersion, Seed: seed, Tier: tier,
		ChooserSeed: simrt.Mix(seed, 10),
		Rates: simrt.Rates{
			Switch:  []float64{0, 0.002, 0.02, 0.2}[r.Intn(4)],
			Recycle: []float64{0.3, 0.8, 1}[r.Intn(3)],
			Purge:   []float64{0, 0.01, 0.05}[r.Intn(3)],
			Shuffle: []float64{0, 0.5, 1}[r.Intn(3)],
			// a task stalls at a pool operation while the others pass several of theirs
			Stall: []float64{0, 0.05, 0.25}[r.Intn(3)],
		},
	}
	p.SetWorkload(&w)
	return p
}

// ---------------------------------------------------------------------------
// rendering

const chkArgs = "f1, get_key(f1), t1, get_key(t1), message, get_key(message), n1, get_key(n1), n2, get_key(n2), pl_msg, get_key(pl_msg), `sp k`, get_key(`sp k`)"

func renderSeg(sg *Segment) string {
	var b strings.Builder
	for i, op := range sg.Ops {
		switch op.Op {
		case "add_key":
			fmt.Fprintf(&b, "add_key(%s, %s)\n", op.K, op.Lit)
		case "add_key1":
			fmt.Fprintf(&b, "add_key(%s)\n", op.K)
		case "set_tag":
			fmt.Fprintf(&b, "set_tag(%s, %s)\n", op.K, op.Lit)
		case "set_tag1":
			fmt.Fprintf(&b, "set_tag(%s)\n", op.K)
		case "set_tag_var":
			fmt.Fprintf(&b, "vv = %s\nset_tag(%s, vv)\n", op.Lit, op.K)
		case "add_key_var":
			fmt.Fprintf(&b, "vv = %s\nadd_key(%s, vv)\n", op.Lit, op.K)
		case "drop_key":
			fmt.Fprintf(&b, "drop_key(%s)\n", op.K)
		case "rename":
			fmt.Fprintf(&b, "rename(%s, %s)\n", op.K, op.K2)
		case "cast":
			fmt.Fprintf(&b, "cast(%s, %q)\n", op.K, op.Lit)
		case "set_measurement":
			fmt.Fprintf(&b, "set_measurement(%s, true)\n", op.K)
		case "default_time":
			fmt.Fprintf(&b, "default_time(%s)\n", op.K)
		case "grok":
			fmt.Fprintf(&b, "grok(%s, %q)\n", op.K, op.Lit)
		case "shadow":
			fmt.Fprintf(&b, "%s = %s\n", op.K, op.Lit)
		case "raw1":
			fmt.Fprintf(&b, "%s(%s)\n", op.Lit, op.K)
		case "replace":
			fmt.Fprintf(&b, "replace(%s, %q, \"X\")\n", op.K, op.Lit)
		case "strfmt":
			fmt.Fprintf(&b, "strfmt(%s, \"%%v|%%v\", %s, f1)\n", op.K, op.K2)
		case "datetime":
			fmt.Fprintf(&b, "datetime(%s, \"ms\", %q)\n", op.K, op.Lit)
		case "xml":
			fmt.Fprintf(&b, "xml(_, '/a/b/text()', %s)\n", op.K)
		default:
			panic("c10: unknown op " + op.Op)
		}
		if probed(sg, i) {
			fmt.Fprintf(&b, "chk(%d, %s)\n", i, chkArgs)
		}
	}
	return b.String()
}

// probed tells whether the probe runs after operation i of the segment.
func probed(sg *Segment, i int) bool {
	if sg.Sparse <= 0 {
		return true
	}
	if sg.CancelAt == i {
		return true // the probe is also the carrier of the cancellation fault
	}
	return i%(sg.Sparse+1) == sg.Sparse
}

func initialFields(sg *Segment) map[string]any {
	f := map[string]any{"message": sg.Msg, "f_nan": math.NaN()}
	switch sg.F1 {
	case "int64":
		f["f1"] = int64(5)
	case "int":
		f["f1"] = int(6)
	case "uint8":
		f["f1"] = uint8(7)
	case "float32":
		f["f1"] = float32(1.5)
	case "float64":
		f["f1"] = float64(2.5)
	case "string":
		f["f1"] = "str"
	case "bool":
		f["f1"] = true
	case "nil":
		f["f1"] = nil
	case "nan":
		f["f1"] = math.NaN()
	}
	return f
}

func canon(k string) string {
	if k == "_" {
		return "message"
	}
	return strings.Trim(k, "`")
}

// ---------------------------------------------------------------------------
// execution

type hostSig struct{ on bool }

func (s *hostSig) ExitSignal() bool { return s.on }

type taskRun struct {
	id    int
	segs  []Segment
	obs   []string // one snapshot per executed chk and per segment end
	viol  *core.Violation
	cur   *Segment
	curPt *input.Point
	sig   *hostSig
	prevT map[string]string
	prevF map[string]any
	nops  int
}

func valStr(v any) string {
	if f, ok := v.(float64); ok && math.IsNaN(f) {
		return "float64:NaN"
	}
	return fmt.Sprintf("%T:%v", v, v)
}

func snapshot(pt *input.Point) string {
	var parts []string
	for k, v := range pt.Tags {
		parts = append(parts, "T "+k+"="+v)
	}
	for k, v := range pt.Fields {
		parts = append(parts, "F "+k+"="+valStr(v))
	}
	sort.Strings(parts)
	return pt.Measurement + "|" + strings.Join(parts, ";")
}

func dtypeOf(v any) (ast.DType, bool) {
	switch v.(type) {
	case nil:
		return ast.Nil, true
	case int64:
		return ast.Int, true
	case float64:
		return ast.Float, true
	case bool:
		return ast.Bool, true
	case string:
		return ast.String, true
	}
	return ast.Invalid, false
}

func same(a, b any) bool { return valStr(a) == valStr(b) }

// invariants evaluates I1-I4 on pt; returns class-key, detail.
func sortedKeys[V any](m map[string]V) []string {
	ks := make([]string, 0, len(m))
	for k := range m {
		ks = append(ks, k)
	}
	sort.Strings(ks)
	return ks
}

// (harness code never ranges over a Go map where the order can influence what
// happens next: the verdict and the event sequence must be a function of the plan)
func invariants(pt *input.Point) (string, string) {
	for _, k := range sortedKeys(pt.Tags) {
		if _, both := pt.Fields[k]; both {
			return "tag-and-field", fmt.Sprintf("key %q is simultaneously a tag (%q) and a field (%s)", k, pt.Tags[k], valStr(pt.Fields[k]))
		}
	}
	for _, k := range sortedKeys(pt.Tags) {
		tv := pt.Tags[k]
		v, dt, err := pt.Get(k)
		if err != nil || dt != ast.String || !same(v, tv) {
			return "tag-unreadable", fmt.Sprintf("tag %q=%q reads back as (%s, %s, err=%v)", k, tv, valStr(v), dt, err)
		}
	}
	for _, k := range sortedKeys(pt.Fields) {
		fv := pt.Fields[k]
		want, ok := dtypeOf(fv)
		if !ok {
			return "field-type", fmt.Sprintf("field %q holds a %T; only int64, float64, bool, string, nil are allowed", k, fv)
		}
		v, dt, err := pt.Get(k)
		if err != nil || dt != want || !same(v, fv) {
			return "field-unreadable", fmt.Sprintf("field %q=%s reads back as (%s, %s, err=%v)", k, valStr(fv), valStr(v), dt, err)
		}
	}
	keys := map[string]bool{}
	for k := range pt.Meta {
		keys[k] = true
	}
	for _, k := range alphabet {
		keys[k] = true
	}
	for _, k := range sortedKeys(keys) {
		v, _, err := pt.Get(k)
		if err != nil || v == nil {
			continue
		}
		tv, isT := pt.Tags[k]
		fv, isF := pt.Fields[k]
		if !(isT && same(v, tv)) && !(isF && same(v, fv)) {
			return "phantom-read", fmt.Sprintf("reading %q returns %s which the output point does not hold (tag present=%v, field present=%v)", k, valStr(v), isT, isF)
		}
	}
	return "", ""
}

func (t *taskRun) fail(class, key, detail string, opIdx int) {
	if t.viol != nil {
		return
	}
	opText := "segment end"
	if opIdx >= 0 && opIdx < len(t.cur.Ops) {
		o := t.cur.Ops[opIdx]
		opText = fmt.Sprintf("op #%d %s(%s %s %s)", opIdx, o.Op, o.K, o.K2, o.Lit)
		key = key + ":" + o.Op
	}
	t.viol = &core.Violation{Class: "C10/" + class, Key: key,
		Detail: fmt.Sprintf("task %d, after %s: %s\nsegment script:\n%s", t.id, opText, detail, renderSeg(t.cur))}
}

// chk is the probe builtin: chk(opIndex, f1, get_key(f1), ...).
func (t *taskRun) chk(ctx *runtime.Task, e *ast.CallExpr) *errchain.PlError {
	pt, ok := ctx.InData().(*input.Point)
	if !ok || pt != t.curPt {
		t.fail("harness", "wrong-point", "probe saw a point that is not this task's point", -1)
		return nil
	}
	idx := int(e.Param[0].IntegerLiteral().Val)
	t.nops++
	if cls, detail := invariants(pt); cls != "" {
		t.fail("invariant", cls, detail, idx)
	}
	// I5 script-level reads
	reads := make([]string, 0, len(alphabet))
	shadowed := map[string]bool{} // names that are local variables by now: their bare form reads the variable
	for i := 0; i <= idx && i < len(t.cur.Ops); i++ {
		if t.cur.Ops[i].Op == "shadow" {
			shadowed[t.cur.Ops[i].K] = true
		}
	}
	for i, k := range alphabet {
		want, _, err := pt.Get(k)
		if err != nil {
			want = nil
		}
		for j := 0; j < 2; j++ {
			if j == 0 && shadowed[k] {
				continue
			}
			v, _, rerr := runtime.RunStmt(ctx, e.Param[1+2*i+j])
			if rerr != nil {
				t.fail("invariant", "script-read-error", fmt.Sprintf("reading %q in the script failed: %v", k, rerr), idx)
				continue
			}
			if !same(v, want) {
				form := k
				if j == 1 {
					form = "get_key(" + k + ")"
				}
				t.fail("invariant", "script-read", fmt.Sprintf("%s evaluates to %s, the point's read gives %s", form, valStr(v), valStr(want)), idx)
			}
		}
		reads = append(reads, k+"="+valStr(want))
	}
	// narrow effect oracles (need the state immediately before the operation: dense probing only)
	if idx >= 0 && idx < len(t.cur.Ops) && t.cur.Sparse <= 0 {
		op := t.cur.Ops[idx]
		switch op.Op {
		case "drop_key":
			k := canon(op.K)
			_, isT := pt.Tags[k]
			_, isF := pt.Fields[k]
			if isT || isF {
				t.fail("effect", "drop-ineffective", fmt.Sprintf("drop_key(%s): key still present (tag=%v field=%v)", op.K, isT, isF), idx)
			}
		case "rename":
			to, from := canon(op.K), canon(op.K2)
			pv, wasT := t.prevT[from]
			fv, wasF := t.prevF[from]
			if to != from && (wasT || wasF) {
				_, isT := pt.Tags[from]
				_, isF := pt.Fields[from]
				if isT || isF {
					t.fail("effect", "rename-from-remains", fmt.Sprintf("rename(%s, %s): source key still present", op.K, op.K2), idx)
				}
				if wasT {
					if nv, ok := pt.Tags[to]; !ok || nv != pv {
						t.fail("effect", "rename-value", fmt.Sprintf("rename(%s, %s): destination tag is %q (present=%v), source tag was %q", op.K, op.K2, nv, ok, pv), idx)
					}
				} else {
					if nv, ok := pt.Fields[to]; !ok || !same(nv, fv) {
						t.fail("effect", "rename-value", fmt.Sprintf("rename(%s, %s): destination field is %s (present=%v), source field was %s", op.K, op.K2, valStr(nv), ok, valStr(fv)), idx)
					}
				}
			}
		}
	}
	t.obs = append(t.obs, snapshot(pt)+" reads:"+strings.Join(reads, ","))
	t.remember(pt)
	if t.cur.CancelAt == idx {
		t.sig.on = true
	}
	return nil
}

func (t *taskRun) remember(pt *input.Point) {
	t.prevT = map[string]string{}
	t.prevF = map[string]any{}
	for k, v := range pt.Tags {
		t.prevT[k] = v
	}
	for k, v := range pt.Fields {
		t.prevF[k] = v
	}
}

type loaded struct {
	scripts []*runtime.Script // per segment
}

func (t *taskRun) run(ld []*runtime.Script, base int, pristine bool) {
	var live *input.Point // the previous segment's point when the host keeps it
	for si := range t.segs {
		sg := &t.segs[si]
		t.cur = sg
		t.sig = &hostSig{}
		var pt *input.Point
		switch {
		case !pristine && sg.Reuse && live != nil:
			pt = live
		case !pristine && sg.Own:
			pt = &input.Point{}
		default:
			pt = input.GetPoint()
		}
		live = nil
		t.curPt = pt
		tags := map[string]string{"t1": "tv"}
		if len(sg.Msg) > 10 && sg.Msg[0] == '2' {
			tags["t1"] = sg.Msg // a tag whose value means something to a builtin (a timestamp)
		}
		if sg.NoTags {
			tags = nil
		}
		for i := 0; i < sg.ManyTags; i++ {
			tags[fmt.Sprintf("x%04d", i)] = "v"
		}
		input.InitPt(pt, "m", tags, initialFields(sg), simrt.Now())
		t.remember(pt)
		if cls, detail := invariants(pt); cls != "" {
			t.fail("invariant", "init:"+cls, detail, -1)
		}
		// a run-time error of a builtin (e.g. an unsupported datetime layout) ends the script like an
		// abort between two operations; the invariants must hold on the point as it was left
		if err := ld[base+si].Run(pt, t.sig); err != nil {
			t.obs = append(t.obs, "ERR "+err.Error())
		}
		if cls, detail := invariants(pt); cls != "" {
			t.fail("invariant", cls, detail, -1)
		}
		t.obs = append(t.obs, "END "+snapshot(pt))
		switch {
		case !pristine && si+1 < len(t.segs) && t.segs[si+1].Reuse:
			live = pt // kept by the host, initialised again by the next segment
		case !pristine && sg.Own:
		default:
			input.PutPoint(pt)
		}
		t.curPt = nil
	}
}

func execute(p *core.Plan, w *Workload, pristine bool, res *core.Result) ([]*taskRun, *simrt.World, string) {
	world := core.BeginWorld(p, 40000000, pristine)
	tasks := make([]*taskRun, len(w.Tasks))
	// the probe dispatches on the running task
	var current func() *taskRun
	calls, checks := plenv.Tables(map[string]runtime.FuncCall{
		"chk": func(ctx *runtime.Task, e *ast.CallExpr) *errchain.PlError { return current().chk(ctx, e) },
	}, map[string]runtime.FuncCheck{
		"chk": func(ctx *runtime.Task, e *ast.CallExpr) *errchain.PlError { return nil },
	})
	// load every segment script (load phase, single task)
	src := map[string]string{}
	var order []string
	for ti, segs := range w.Tasks {
		for si := range segs {
			name := fmt.Sprintf("t%d_s%d.p", ti, si)
			src[name] = renderSeg(&segs[si])
			order = append(order, name)
		}
	}
	okM, errM := engine.ParseScript(src, calls, checks)
	if len(errM) > 0 {
		simrt.End()
		return nil, world, fmt.Sprintf("generated segment rejected by the loader: %v", errM)
	}
	var ld []*runtime.Script
	for _, n := range order {
		ld = append(ld, okM[n])
	}
	base := 0
	var fns []func()
	for ti, segs := range w.Tasks {
		t := &taskRun{id: ti, segs: segs}
		tasks[ti] = t
		b := base
		fns = append(fns, func() { t.run(ld, b, pristine) })
		base += len(segs)
	}
	if pristine {
		// solo reference: one task after the other, fresh objects only
		for ti := range tasks {
			ti := ti
			current = func() *taskRun { return tasks[ti] }
			pv, blown := core.Guard(fns[ti])
			if pv != nil || blown {
				tasks[ti].fail("no-return", "panic-or-budget", fmt.Sprintf("solo run panicked or exceeded the step budget: %v", pv), -1)
				simrt.SetBudget(0)
			}
		}
	} else {
		current = func() *taskRun { return tasks[simrt.CurTask()-1] }
		rs := simrt.RunTasks(fns)
		for i, r := range rs {
			if r.Panic != nil {
				tasks[i].fail("no-return", "panic-or-budget", fmt.Sprintf("interleaved run panicked or exceeded the step budget: %v\n%s", r.Panic, r.Stack), -1)
			}
		}
	}
	res.Evals++
	return tasks, world, ""
}

func (Prop) Run(p *core.Plan) *core.Result {
	plenv.Quiet()
	var w Workload
	if err := p.GetWorkload(&w); err != nil {
		return &core.Result{Infra: "bad workload: " + err.Error()}
	}
	res := &core.Result{Faults: map[string]int{}, Probes: map[string]int{}}
	// 1. solo reference with always-fresh pools
	solo, w1, infra := execute(p, &w, true, res)
	simrt.End()
	if infra != "" {
		return &core.Result{Infra: infra}
	}
	res.Events += w1.Events
	res.Digest ^= w1.Digest
	for _, t := range solo {
		if t.viol != nil {
			res.Violation = t.viol
			res.NonTrivial = true
			return res
		}
	}
	// 2. interleaved run with simulator-chosen recycling
	inter, w2, infra := execute(p, &w, false, res)
	var recycled, purged uint64
	for _, pl := range simrt.Pools() {
		recycled += pl.Recycled
		purged += pl.Purged
	}
	res.Recorded = simrt.End()
	if infra != "" {
		return &core.Result{Infra: infra}
	}
	res.Events += w2.Events
	res.Digest ^= w2.Digest
	res.Faults["pool_recycle"] = int(w2.Fired[simrt.KPoolGet])
	res.Faults["pool_purge"] = int(w2.Fired[simrt.KPurge])
	res.Faults["task_switch"] = int(w2.Fired[simrt.KSched])
	res.Faults["task_stall"] = int(w2.Fired[simrt.KStall])
	res.Faults["map_order_permuted"] = int(w2.Fired[simrt.KMapOrd])
	nops := 0
	for ti, t := range inter {
		nops += t.nops
		for _, sg := range t.segs {
			if sg.CancelAt >= 0 {
				res.Faults["cancellation"]++
			}
		}
		if t.viol != nil {
			res.Violation = t.viol
			res.Violation.Detail += "\n(the same history holds when run alone with fresh pools: the violation needs recycling or interleaving)"
			res.Violation.Class += "-interleaved"
			res.NonTrivial = true
			return res
		}
		s := solo[ti]
		for i := 0; i < len(t.obs) || i < len(s.obs); i++ {
			if i >= len(t.obs) || i >= len(s.obs) || t.obs[i] != s.obs[i] {
				a, b := "<missing>", "<missing>"
				if i < len(t.obs) {
					a = t.obs[i]
				}
				if i < len(s.obs) {
					b = s.obs[i]
				}
				res.Violation = &core.Violation{Class: "C10/interference", Key: "solo-vs-interleaved",
					Detail: fmt.Sprintf("task %d observation #%d differs between the interleaved run with recycled objects and the solo run with fresh pools:\n  interleaved: %s\n  solo:        %s", ti, i, a, b)}
				res.NonTrivial = true
				return res
			}
		}
	}
	_ = purged
	res.NonTrivial = nops >= 2 && (w2.Fired[simrt.KPoolGet] > 0 || w2.Fired[simrt.KSched] > 0)
	res.Sig = core.Hash(string(p.Workload), w2.Digest)
	if recycled > 0 {
		res.Probes["runs_with_recycled_objects"]++
	}
	res.Probes["operations_checked"] += nops
	// measured reach: distinct interleavings (task-switch sequences) and distinct point states
	res.Sets = map[string][]uint64{}
	if len(w2.SwitchLog) > 1 {
		res.Sets["interleavings"] = []uint64{core.Hash(fmt.Sprint(w2.SwitchLog))}
	}
	for _, t := range inter {
		for i, o := range t.obs {
			if i < 64 {
				res.Sets["point_states"] = append(res.Sets["point_states"], core.Hash(o))
			}
		}
	}
	res.Sample = map[string]interface{}{"tasks": len(w.Tasks), "first_segment": renderSeg(&w.Tasks[0][0])}
	return res
}

func (Prop) Shrink(p *core.Plan) []*core.Plan {
	var w Workload
	if p.GetWorkload(&w) != nil {
		return nil
	}
	var out []*core.Plan
	clone := func() Workload {
		var nw Workload
		for _, segs := range w.Tasks {
			var ns []Segment
			for _, s := range segs {
				s.Ops = append([]Op(nil), s.Ops...)
				ns = append(ns, s)
			}
			nw.Tasks = append(nw.Tasks, ns)
		}
		return nw
	}
	mk := func(nw Workload) {
		q := p.Clone()
		q.SetWorkload(&nw)
		out = append(out, q)
	}
	for ti := range w.Tasks {
		if len(w.Tasks) > 1 {
			nw := clone()
			nw.Tasks = append(nw.Tasks[:ti], nw.Tasks[ti+1:]...)
			mk(nw)
		}
	}
	for ti := range w.Tasks {
		for si := range w.Tasks[ti] {
			if len(w.Tasks[ti]) > 1 {
				nw := clone()
				nw.Tasks[ti] = append(nw.Tasks[ti][:si], nw.Tasks[ti][si+1:]...)
				mk(nw)
			}
			sg := w.Tasks[ti][si]
			if len(sg.Ops) >= 4 {
				for _, half := range [][2]int{{0, len(sg.Ops) / 2}, {len(sg.Ops) / 2, len(sg.Ops)}} {
					nw := clone()
					nw.Tasks[ti][si].Ops = append([]Op(nil), sg.Ops[half[0]:half[1]]...)
					nw.Tasks[ti][si].CancelAt = -1
					mk(nw)
				}
			}
			for oi := range sg.Ops {
				if len(sg.Ops) > 1 {
					nw := clone()
					ops := nw.Tasks[ti][si].Ops
					nw.Tasks[ti][si].Ops = append(ops[:oi], ops[oi+1:]...)
					if nw.Tasks[ti][si].CancelAt >= oi {
						nw.Tasks[ti][si].CancelAt--
					}
					mk(nw)
				}
			}
			if sg.CancelAt >= 0 {
				nw := clone()
				nw.Tasks[ti][si].CancelAt = -1
				mk(nw)
			}
			if sg.Sparse > 0 {
				nw := clone()
				nw.Tasks[ti][si].Sparse = 0
				mk(nw)
			}
			if sg.NoTags {
				nw := clone()
				nw.Tasks[ti][si].NoTags = false
				mk(nw)
			}
			if sg.ManyTags > 0 {
				nw := clone()
				nw.Tasks[ti][si].ManyTags = 0
				mk(nw)
				nw = clone()
				nw.Tasks[ti][si].ManyTags = sg.ManyTags - 1
				mk(nw)
			}
			if sg.F1 != "int64" {
				nw := clone()
				nw.Tasks[ti][si].F1 = "int64"
				mk(nw)
			}
		}
	}
	return out
}
