//go:build !race

package c16

func raceErrors() int { return 0 }

const raceBuild = false
