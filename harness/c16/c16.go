// Package c16 decides property C16: loaded scripts and the parser are safe for
// concurrent use - no data races, and every run produces the same result as
// when executed alone.
//
// Caller goroutines are simulated tasks: a seeded scheduler decides which one
// runs at every yield point. Turn passing is invisible to the race detector, so
// two conflicting accesses from different tasks that the code's own
// synchronisation does not order are reported from a deterministic, replayable
// schedule.
package c16

import (
	"fmt"
	"os"
	"regexp"
	"sort"
	"strings"
	"time"
	_ "time/tzdata"

	"github.com/GuanceCloud/platypus/internal/simrt"
	"github.com/GuanceCloud/platypus/internal/verifsim/core"
	"github.com/GuanceCloud/platypus/internal/verifsim/corpus"
	"github.com/GuanceCloud/platypus/internal/verifsim/dump"
	"github.com/GuanceCloud/platypus/internal/verifsim/plenv"
	"github.com/GuanceCloud/platypus/pkg/engine"
	"github.com/GuanceCloud/platypus/pkg/ast"
	"github.com/GuanceCloud/platypus/pkg/engine/runtime"
	"github.com/GuanceCloud/platypus/pkg/engine/runtimev2"
	"github.com/GuanceCloud/platypus/pkg/errchain"
	"github.com/GuanceCloud/platypus/pkg/inimpl/guancecloud/input"
	"github.com/GuanceCloud/platypus/pkg/parser"
)

type TOp struct {
	Kind  string `json:"kind"` // parse, run, load (a private set, loaded by the task itself), loadrun (load, then run Name of that private load on Point), runv2 (shared v2 script Src)
	Src   int    `json:"src,omitempty"`
	Set   int    `json:"set,omitempty"`
	Name  string `json:"name,omitempty"`
	Point int    `json:"point,omitempty"`
	Reps  int    `json:"reps,omitempty"`
}

type Workload struct {
	// Cold: there is no load phase - every set is first loaded by the tasks themselves (loadrun
	// operations), so whatever loading installs or caches is first touched while tasks interleave
	Cold    bool                `json:"cold,omitempty"`
	Sets    []map[string]string `json:"sets"` // loaded once in the load phase, shared by all tasks
	Sources []string            `json:"sources"`
	V2      []string            `json:"v2,omitempty"` // v2 scripts, loaded once and run by several tasks
	Points  []corpus.PointT     `json:"points"`
	Tasks   [][]TOp             `json:"tasks"`
	// ConcFirst: the concurrent phase runs before the solo reference (which uses its own
	// private load anyway), so nothing has been warmed up sequentially when tasks interleave.
	ConcFirst bool `json:"conc_first,omitempty"`
}

type Prop struct{}

func (Prop) ID() string { return "C16" }
func (Prop) Size(tier string) int {
	if tier == "thorough" {
		return 100000
	}
	return 2500
}
func (Prop) FreshProcessShrink() bool { return true }

// ProcessesPerWorker: many short-lived worker processes, so that "first use in this process"
// happens often - and, for plans with ConcFirst, while tasks interleave.
func (Prop) ProcessesPerWorker(tier string) int {
	if tier == "thorough" {
		return 40
	}
	return 8
}
func (Prop) Rule() string {
	return "plan = load phase (1-3 script sets with grok/add_pattern, use chains, loops, json/xml/sql builtins, default_time, key plumbing; loaded once) + concurrent phase of 2-16 simulated caller tasks, each parsing sources (distinct, identical, invalid, recover-tripping), loading private sets, or running one of the shared loaded scripts 1-5 times on a private point; the seeded scheduler passes the turn at yield points with a per-plan density from 'run to completion in random order' to 'switch at almost every step'; evaluation = one concurrent phase (plus its solo reference); non-trivial = at least 2 tasks took turns at least once and a shared script was run by 2 tasks or two parses overlapped; distinct = hash of (workload, switch sequence)"
}
func (Prop) Assumptions() []string {
	return []string{
		"built with -race; the scheduler's turn passing is a norace spin on a plain word and creates no happens-before edge; goroutine creation and the final WaitGroup order the harness's load/solo phase before and its result collection after the concurrent phase",
		"simulated pools reproduce sync.Pool's per-object release/acquire edge and nothing more",
		"yield points exist only in platypus code: third-party calls (regexp, grok, xmlquery, json) are atomic in the schedule; races into them are still seen by the detector",
		"the detector de-duplicates reports per process, so the shrinker re-executes every candidate in a fresh process",
		"the race build replaces the standard library's sync.Pool.Put by a drop (go build -overlay): no object of fmt/regexp/json pools is handed from one task to another, so those hand-offs cannot order two tasks; yield points are at every statement (R5)",
	}
}

func sortedNames(m map[string]string) []string {
	var ns []string
	for k := range m {
		ns = append(ns, k)
	}
	sort.Strings(ns)
	return ns
}

func (Prop) Generate(seed uint64, tier string) *core.Plan {
	r := simrt.NewRNG(seed)
	corpus.SetTheme(r)
	w := Workload{}
	nsets := 1 + r.Intn(3)
	for i := 0; i < nsets; i++ {
		w.Sets = append(w.Sets, corpus.GenSet(r))
	}
	nsrc := 1 + r.Intn(4)
	for i := 0; i < nsrc; i++ {
		s := corpus.GenScript(r, 70+i)
		if r.Intn(3) == 0 {
			s = corpus.Mutate(r, s)
		}
		w.Sources = append(w.Sources, s)
	}
	np := 1 + r.Intn(3)
	for i := 0; i < np; i++ {
		w.Points = append(w.Points, corpus.GenPoint(r))
	}
	nv2 := r.Intn(3)
	for i := 0; i < nv2; i++ {
		w.V2 = append(w.V2, corpus.GenV2(r, i))
	}
	nt := 2 + r.Intn(4)
	if r.Intn(4) == 0 {
		nt = 2 + r.Intn(15)
	}
	focus := r.Intn(3) // 0 mixed, 1 everyone runs the same script, 2 parse-heavy
	if r.Intn(6) == 0 {
		focus = 3 // load-heavy on cold sets: the tasks load the sets themselves and run what they loaded
		w.Cold = true
	}
	fset := r.Intn(nsets)
	fnames := sortedNames(w.Sets[fset])
	fname := fnames[r.Intn(len(fnames))]
	for t := 0; t < nt; t++ {
		nops := 1 + r.Intn(3)
		var ops []TOp
		for i := 0; i < nops; i++ {
			c := r.Intn(100)
			switch {
			case focus == 3 && c < 75:
				op := TOp{Kind: "loadrun", Set: r.Intn(nsets), Point: r.Intn(np)}
				names := sortedNames(w.Sets[op.Set])
				op.Name = names[r.Intn(len(names))]
				ops = append(ops, op)
			case focus == 3:
				ops = append(ops, TOp{Kind: "parse", Src: r.Intn(nsrc), Reps: 1 + r.Intn(3)})
			case focus == 1 || (focus == 0 && c < 60):
				op := TOp{Kind: "run", Set: r.Intn(nsets), Point: r.Intn(np), Reps: 1 + r.Intn(5)}
				names := sortedNames(w.Sets[op.Set])
				op.Name = names[r.Intn(len(names))]
				if focus == 1 {
					op.Set, op.Name = fset, fname
				}
				ops = append(ops, op)
			case nv2 > 0 && c < 72 && focus != 2:
				ops = append(ops, TOp{Kind: "runv2", Src: r.Intn(nv2), Reps: 1 + r.Intn(4)})
			case c < 90 || focus == 2:
				ops = append(ops, TOp{Kind: "parse", Src: r.Intn(nsrc), Reps: 1 + r.Intn(3)})
			default:
				ops = append(ops, TOp{Kind: "load", Set: r.Intn(nsets)})
			}
		}
		w.Tasks = append(w.Tasks, ops)
	}
	w.ConcFirst = r.Intn(2) == 0
	if w.Cold && r.Intn(4) != 0 {
		w.ConcFirst = true
	}
	p := &core.Plan{Property: "C16", Version: core.HarnessVersion, Seed: seed, Tier: tier,
		ChooserSeed: simrt.Mix(seed, 16),
		Rates: simrt.Rates{
			// (yield points are at every statement in the race build, so even 0.15 means a switch every ~7 statements)
			Switch:  []float64{0, 0.0005, 0.003, 0.02, 0.15}[r.Intn(5)],
			Recycle: []float64{0.5, 0.9, 1}[r.Intn(3)],
			Purge:   []float64{0, 0.02}[r.Intn(2)],
			Shuffle: []float64{0, 0.5}[r.Intn(2)],
			// stalled-task fault at synchronisation points (atomic operations, lock acquisitions)
			Stall: []float64{0, 0, 0.03, 0.1, 0.3}[r.Intn(5)],
		},
	}
	p.SetWorkload(&w)
	return p
}

// ---------------------------------------------------------------------------

func errStr(e error) string {
	if e == nil {
		return "nil"
	}
	if pe, ok := e.(*errchain.PlError); ok {
		if pe == nil {
			return "nil"
		}
		return fmt.Sprintf("PlError{%q %v}", pe.Err, pe.PosChain)
	}
	return "error{" + e.Error() + "}"
}

func pointStr(pt *input.Point) string {
	var parts []string
	for k, v := range pt.Tags {
		parts = append(parts, "T "+k+"="+v)
	}
	for k, v := range pt.Fields {
		parts = append(parts, fmt.Sprintf("F %s=%T:%v", k, v, v))
	}
	sort.Strings(parts)
	return fmt.Sprintf("m=%q drop=%v time=%d %s", pt.Measurement, pt.Drop, pt.Time.UnixNano(), strings.Join(parts, ";"))
}

type shared struct {
	w      *Workload
	calls  map[string]runtime.FuncCall
	checks map[string]runtime.FuncCheck
	loaded []map[string]*runtime.Script
	lerrs  []map[string]error
	base   time.Time
	v2     []*runtimev2.Script
	v2out  [][]string // per task id (0 = the harness running solo)
}

// loadV2 loads the v2 scripts once; their probe function out(x) records per running task.
func (sh *shared) loadV2(ntasks int) {
	sh.v2out = make([][]string, ntasks+1)
	fn := map[string]*runtimev2.Fn{"out": {
		Call: func(ctx *runtimev2.Task, e *ast.CallExpr) *errchain.PlError {
			if len(e.Param) != 1 {
				return nil
			}
			if err := runtimev2.RunExpr(ctx, e.Param[0]); err != nil {
				return err
			}
			id := simrt.CurTask()
			if v, rerr := ctx.Regs.GetRet(); rerr == nil {
				sh.v2out[id] = append(sh.v2out[id], fmt.Sprintf("%T:%v", v.V, v.V))
			} else {
				sh.v2out[id] = append(sh.v2out[id], "noval")
			}
			return nil
		},
		CallCheck: func(ctx *runtimev2.Task, e *ast.CallExpr) *errchain.PlError { return nil },
	}}
	for i, src := range sh.w.V2 {
		s, err := engine.ParseV2(fmt.Sprintf("v2_%d.p", i), src, fn)
		if err != nil {
			s = nil
		}
		sh.v2 = append(sh.v2, s)
	}
}

func loadStr(set map[string]string, okM map[string]*runtime.Script, errM map[string]error) string {
	var parts []string
	for _, n := range sortedNames(set) {
		if s, ok := okM[n]; ok {
			parts = append(parts, fmt.Sprintf("%s: OK %016x", n, core.Hash(dump.Value(s.Ast))))
		} else {
			parts = append(parts, fmt.Sprintf("%s: ERR %s", n, errStr(errM[n])))
		}
	}
	return strings.Join(parts, "\n")
}

// doOps executes one task's operations and returns one outcome per op repetition.
func (sh *shared) doOps(ops []TOp) []string {
	var out []string
	for _, op := range ops {
		reps := op.Reps
		if reps < 1 {
			reps = 1
		}
		for rep := 0; rep < reps; rep++ {
			switch op.Kind {
			case "parse":
				stmts, err := parser.ParsePipeline("src.p", sh.w.Sources[op.Src])
				if err != nil {
					out = append(out, "ERR "+errStr(err))
				} else {
					out = append(out, fmt.Sprintf("OK %016x", core.Hash(dump.Value(stmts))))
				}
			case "load":
				src := map[string]string{}
				for k, v := range sh.w.Sets[op.Set] {
					src[k] = v
				}
				okM, errM := engine.ParseScript(src, sh.calls, sh.checks)
				out = append(out, loadStr(sh.w.Sets[op.Set], okM, errM))
			case "loadrun":
				src := map[string]string{}
				for k, v := range sh.w.Sets[op.Set] {
					src[k] = v
				}
				okM, errM := engine.ParseScript(src, sh.calls, sh.checks)
				o := loadStr(sh.w.Sets[op.Set], okM, errM)
				if sc, ok := okM[op.Name]; ok {
					pt := input.GetPoint()
					tpl := &sh.w.Points[op.Point]
					input.InitPt(pt, tpl.Measurement, tpl.TagsCopy(), tpl.Fields(), sh.base)
					err := sc.Run(pt, nil)
					var e error
					if err != nil {
						e = err
					}
					o += "\nrun " + op.Name + ": err=" + errStr(e) + " " + pointStr(pt)
					input.PutPoint(pt)
				}
				out = append(out, o)
			case "runv2":
				if op.Src >= len(sh.v2) || sh.v2[op.Src] == nil {
					out = append(out, "V2 NOT LOADED")
					continue
				}
				id := simrt.CurTask()
				sh.v2out[id] = nil
				rerr := sh.v2[op.Src].Run(nil)
				var e error
				if rerr != nil {
					e = rerr
				}
				out = append(out, fmt.Sprintf("err=%s out=%v", errStr(e), sh.v2out[id]))
			case "run":
				sc, ok := sh.loaded[op.Set][op.Name]
				if !ok {
					out = append(out, "REJECTED")
					continue
				}
				pt := input.GetPoint()
				tpl := &sh.w.Points[op.Point]
				input.InitPt(pt, tpl.Measurement, tpl.TagsCopy(), tpl.Fields(), sh.base)
				err := sc.Run(pt, nil)
				var e error
				if err != nil {
					e = err
				}
				out = append(out, "err="+errStr(e)+" "+pointStr(pt))
				input.PutPoint(pt)
			}
		}
	}
	return out
}

var logOffsets = map[string]int64{}

// newRaceReports returns the text the race detector appended to its log since the last call.
func newRaceReports() string {
	gr := os.Getenv("GORACE")
	i := strings.Index(gr, "log_path=")
	if i < 0 {
		return ""
	}
	path := strings.Fields(gr[i+len("log_path="):])[0]
	path = fmt.Sprintf("%s.%d", path, os.Getpid())
	b, err := os.ReadFile(path)
	if err != nil {
		return ""
	}
	off := logOffsets[path]
	logOffsets[path] = int64(len(b))
	if off > int64(len(b)) {
		off = 0
	}
	return string(b[off:])
}

var frameRe = regexp.MustCompile(`(?m)^  (\S+)\(.*\)\n\s+(\S+):(\d+)`)

// signature extracts, for the two access stacks of the first report, the
// innermost platypus frame (function and original source line).
func signature(report string) (string, string) {
	first := report
	if i := strings.Index(report, "WARNING: DATA RACE"); i >= 0 {
		first = report[i:]
		if j := strings.Index(first[10:], "=================="); j >= 0 {
			first = first[:10+j]
		}
	}
	blocks := strings.Split(first, "\n\n")
	var sigs []string
	for _, b := range blocks {
		head := strings.TrimSpace(strings.SplitN(b, "\n", 2)[0])
		if !(strings.Contains(head, " by goroutine") || strings.Contains(head, " by main goroutine")) || strings.HasPrefix(head, "Goroutine") {
			continue
		}
		kind := strings.Fields(head)[0]
		if strings.HasPrefix(head, "Previous") {
			kind = strings.Fields(head)[1]
		}
		site := "?"
		for _, m := range frameRe.FindAllStringSubmatch(b, -1) {
			fn, file := m[1], m[2]
			if strings.Contains(fn, "GuanceCloud/platypus/") && !strings.Contains(fn, "/internal/simrt") && !strings.Contains(fn, "/internal/verifsim") {
				if k := strings.Index(file, "/src/"); k >= 0 {
					file = file[k+5:]
				}
				fn = strings.TrimPrefix(fn, "github.com/GuanceCloud/platypus/")
				site = fmt.Sprintf("%s(%s:%s)", fn, file, m[3])
				break
			}
		}
		sigs = append(sigs, strings.ToLower(kind)+" "+site)
		if len(sigs) == 2 {
			break
		}
	}
	sort.Strings(sigs)
	return strings.Join(sigs, " <-> "), first
}

func (Prop) Run(p *core.Plan) *core.Result {
	plenv.Quiet()
	if !raceBuild {
		return &core.Result{Infra: "C16 must be built with -race"}
	}
	// time.Local is never assigned in the race build: a library ticker (glog's flush daemon,
	// pulled in by the obfuscator) reads it from timer context and the detector would report
	// the harness's own write. The check exports TZ=UTC instead.
	if name, off := time.Now().Zone(); off != 0 {
		return &core.Result{Infra: "C16 needs TZ=UTC in the environment, local zone is " + name}
	}
	var w Workload
	if err := p.GetWorkload(&w); err != nil {
		return &core.Result{Infra: "bad workload: " + err.Error()}
	}
	res := &core.Result{Faults: map[string]int{}, Probes: map[string]int{}}
	newRaceReports()
	races0 := raceErrors()
	world := core.BeginWorld(p, 10000000, false)
	sh := &shared{w: &w, base: world.BaseTime}
	sh.calls, sh.checks = plenv.Tables(nil, nil)
	// load phase (single task)
	for _, set := range w.Sets {
		if w.Cold {
			sh.loaded = append(sh.loaded, nil)
			sh.lerrs = append(sh.lerrs, nil)
			continue
		}
		src := map[string]string{}
		for k, v := range set {
			src[k] = v
		}
		okM, errM := engine.ParseScript(src, sh.calls, sh.checks)
		sh.loaded = append(sh.loaded, okM)
		sh.lerrs = append(sh.lerrs, errM)
	}
	sh.loadV2(len(w.Tasks))
	astBefore := make([]uint64, len(sh.loaded))
	for i, m := range sh.loaded {
		for _, n := range sortedNames(w.Sets[i]) {
			if s, ok := m[n]; ok {
				astBefore[i] ^= core.Hash(n, dump.Value(s.Ast))
			}
		}
	}
	// solo reference: every task's operations executed alone, one after the other,
	// on a private second load of the same sets - the shared objects are first
	// touched by the concurrent phase, so anything installed lazily at first use
	// is installed while tasks interleave
	var shSolo *shared
	solo := make([][]string, len(w.Tasks))
	runSolo := func() string {
		shSolo = &shared{w: &w, base: world.BaseTime, calls: sh.calls, checks: sh.checks}
		shSolo.loadV2(len(w.Tasks))
		for _, set := range w.Sets {
			if w.Cold {
				shSolo.loaded = append(shSolo.loaded, nil)
				shSolo.lerrs = append(shSolo.lerrs, nil)
				continue
			}
			src := map[string]string{}
			for k, v := range set {
				src[k] = v
			}
			okM, errM := engine.ParseScript(src, sh.calls, sh.checks)
			shSolo.loaded = append(shSolo.loaded, okM)
			shSolo.lerrs = append(shSolo.lerrs, errM)
		}
		for i, ops := range w.Tasks {
			i, ops := i, ops
			simrt.SetBudget(10000000) // per task
			pv, blown := core.Guard(func() { solo[i] = shSolo.doOps(ops) })
			if blown {
				return "SKIP"
			}
			if pv != nil {
				solo[i] = []string{fmt.Sprintf("PANIC %v", pv)}
			}
		}
		return ""
	}
	got := make([][]string, len(w.Tasks))
	var rs []simrt.TaskResult
	runConc := func() {
		fns := make([]func(), len(w.Tasks))
		for i := range w.Tasks {
			i := i
			fns[i] = func() { got[i] = sh.doOps(w.Tasks[i]) }
		}
		rs = simrt.RunTasks(fns)
	}
	concBlown := false
	soloSkipped := false
	if w.ConcFirst {
		simrt.SetBudget(10 * 10000000 * uint64(len(w.Tasks))) // ten times the solo budget
		runConc()
		concBlown = world.Blown
		if msg := runSolo(); msg == "SKIP" {
			soloSkipped = true
		} else if msg != "" {
			simrt.End()
			return &core.Result{Infra: msg}
		}
	} else {
		if msg := runSolo(); msg == "SKIP" {
			// the generated programs are too large for the solo budget: the plan decides nothing
			simrt.End()
			res.Probes["plans_skipped_reference_over_budget"]++
			return res
		} else if msg != "" {
			simrt.End()
			return &core.Result{Infra: msg}
		}
		simrt.SetBudget(10 * 10000000 * uint64(len(w.Tasks))) // ten times the solo budget
		runConc()
		concBlown = world.Blown
	}
	res.Evals = 1
	switches := world.Fired[simrt.KSched]
	res.Faults["task_switch"] = int(switches)
	res.Faults["task_stall"] = int(world.Fired[simrt.KStall])
	res.Faults["pool_recycle"] = int(world.Fired[simrt.KPoolGet])
	res.Recorded = simrt.End()
	res.Events = world.Events
	res.Digest = world.Digest
	// (1) race reports
	races := raceErrors() - races0
	report := newRaceReports()
	if races > 0 || strings.Contains(report, "DATA RACE") {
		sig, first := signature(report)
		res.Violation = &core.Violation{Class: "C16/data-race", Key: "race:" + sig,
			Detail: fmt.Sprintf("the race detector reported %d race(s) in this schedule; first report:\n%s", races, clip(first))}
		res.NonTrivial = true
		return res
	}
	if soloSkipped {
		res.Probes["plans_skipped_reference_over_budget"]++
		return res
	}
	// (3) panics, (2) results
	for i := range w.Tasks {
		if rs[i].Panic != nil {
			if concBlown {
				res.Violation = &core.Violation{Class: "C16/no-return", Key: "no-return", Detail: fmt.Sprintf("task %d did not finish within the step budget in the concurrent phase (it did when run alone)", i)}
			} else if len(solo[i]) == 1 && strings.HasPrefix(solo[i][0], "PANIC") {
				continue // the same operation panics alone as well: not a concurrency matter
			} else {
				res.Violation = &core.Violation{Class: "C16/panic", Key: "panic", Detail: fmt.Sprintf("task %d panicked in the concurrent phase only: %v\n%s", i, rs[i].Panic, clip(string(rs[i].Stack)))}
			}
			res.NonTrivial = true
			return res
		}
		for j := 0; j < len(solo[i]) || j < len(got[i]); j++ {
			a, b := "<missing>", "<missing>"
			if j < len(got[i]) {
				a = got[i][j]
			}
			if j < len(solo[i]) {
				b = solo[i][j]
			}
			if a != b {
				res.Violation = &core.Violation{Class: "C16/result-differs", Key: "result-differs",
					Detail: fmt.Sprintf("task %d outcome #%d differs from its solo execution:\n  concurrent: %s\n  solo:       %s\n  ops: %+v", i, j, clip(a), clip(b), w.Tasks[i])}
				res.NonTrivial = true
				return res
			}
		}
	}
	// reach probes
	for i, m := range sh.loaded {
		var h uint64
		for _, n := range sortedNames(w.Sets[i]) {
			if s, ok := m[n]; ok {
				h ^= core.Hash(n, dump.Value(s.Ast))
			}
		}
		if h != astBefore[i] {
			res.Probes["shared_ast_changed_during_concurrent_phase"]++
		}
	}
	runners := map[string]int{}
	parsers := 0
	for _, ops := range w.Tasks {
		seen := map[string]bool{}
		for _, op := range ops {
			if op.Kind == "run" {
				k := fmt.Sprintf("%d/%s", op.Set, op.Name)
				if !seen[k] {
					seen[k] = true
					runners[k]++
				}
			} else if !seen["parse"] {
				seen["parse"] = true
				parsers++
			}
		}
	}
	sharedRun := false
	for _, n := range runners {
		if n >= 2 {
			sharedRun = true
		}
	}
	if sharedRun {
		res.Probes["plans_with_one_script_run_by_several_tasks"]++
	}
	res.NonTrivial = switches > 0 && (sharedRun || parsers >= 2)
	if len(world.SwitchLog) > 1 {
		res.Sets = map[string][]uint64{"interleavings": {core.Hash(fmt.Sprint(world.SwitchLog))}}
	}
	res.Sig = core.Hash(string(p.Workload), world.Digest)
	res.Sample = map[string]interface{}{"tasks": w.Tasks, "switches": switches}
	return res
}

func clip(s string) string {
	if len(s) > 3000 {
		return s[:3000] + "..."
	}
	return s
}

func (Prop) Shrink(p *core.Plan) []*core.Plan {
	var w Workload
	if p.GetWorkload(&w) != nil {
		return nil
	}
	var out []*core.Plan
	mk := func(tasks [][]TOp) {
		nw := w
		nw.Tasks = tasks
		q := p.Clone()
		q.SetWorkload(&nw)
		out = append(out, q)
	}
	cp := func() [][]TOp {
		var t [][]TOp
		for _, ops := range w.Tasks {
			t = append(t, append([]TOp(nil), ops...))
		}
		return t
	}
	if len(w.Tasks) > 2 {
		for i := range w.Tasks {
			t := cp()
			mk(append(t[:i], t[i+1:]...))
		}
	}
	for i := range w.Tasks {
		for j := range w.Tasks[i] {
			if len(w.Tasks[i]) > 1 {
				t := cp()
				t[i] = append(t[i][:j], t[i][j+1:]...)
				mk(t)
			}
			if w.Tasks[i][j].Reps > 1 {
				t := cp()
				t[i][j].Reps = 1
				mk(t)
			}
		}
	}
	return out
}
