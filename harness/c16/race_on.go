//go:build race

package c16

import "runtime"

func raceErrors() int { return runtime.RaceErrors() }

const raceBuild = true
