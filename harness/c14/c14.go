// Package c14 decides property C14: a running script stops promptly when its
// cancellation signal fires (both interpreters).
//
// The fault is the instant at which the host signal turns true: either a
// simulated event number (the signal flips while a statement is in progress)
// or a poll index (the k-th time the interpreter asks). Oracles compare the
// interrupted run with the uninterrupted run of the same program.
package c14

import (
	"fmt"
	"sort"
	"strings"

	"github.com/GuanceCloud/platypus/internal/simrt"
	"github.com/GuanceCloud/platypus/internal/verifsim/core"
	"github.com/GuanceCloud/platypus/internal/verifsim/plenv"
	"github.com/GuanceCloud/platypus/internal/verifsim/plgen"
	"github.com/GuanceCloud/platypus/pkg/ast"
	"github.com/GuanceCloud/platypus/pkg/engine"
	"github.com/GuanceCloud/platypus/pkg/engine/runtime"
	"github.com/GuanceCloud/platypus/pkg/engine/runtimev2"
	"github.com/GuanceCloud/platypus/pkg/errchain"
	"github.com/GuanceCloud/platypus/pkg/inimpl/guancecloud/input"
)

const (
	Budget = 20000 // events per run
	BAfter = 5000  // bounded liveness: events allowed between the signal and the return
)

type Instant struct {
	Event uint64 `json:"event,omitempty"` // signal true from this event of the run (1-based, relative to run start)
	Poll  int    `json:"poll,omitempty"`  // or: true from the k-th poll on
}

type Workload struct {
	Scripts  map[string][]plgen.Stmt `json:"scripts"` // name -> body; "main.p" is the root
	Interps  []string                `json:"interps"` // "v1", "v2"
	Instants []Instant               `json:"instants,omitempty"`
	// when Instants is empty the run derives them from the control run (generation time only)
	AutoInstants int `json:"auto_instants,omitempty"`
	// SigKind: what the host passes as Signal: 0 pointer to a struct with state, 1 empty struct value,
	// 2 typed nil pointer with a nil-safe method, 3 function adapter, 4 small struct by value
	SigKind int `json:"sig_kind,omitempty"`
}

type Prop struct{}

func (Prop) ID() string { return "C14" }

func (Prop) Size(tier string) int {
	if tier == "thorough" {
		return 1500000
	}
	return 40000
}

func (Prop) Rule() string {
	return "plan = generated loop-bearing program (three-clause for with optional clauses, for-in over list/string/map, if/else, break/continue, nesting<=3, v1 also use() into scripts with loops; terminating and non-terminating) x interpreter (v1, v2 when in the shared subset) x host signal implementation (pointer, empty struct, typed nil pointer, function adapter, struct by value) x set of signal instants (event just after every poll of the uninterrupted run, event 1, random events, k-th poll); evaluation = one interrupted or control execution; a plan is non-trivial when at least one interrupted run observed the signal before the program's natural end and all five oracles were evaluated; distinct = hash of (program text, interpreters, instants)"
}

func (Prop) Assumptions() []string {
	return []string{
		"conditions and loop clauses of generated programs are effect-free; every simple statement has at most one recorded effect (probe builtin p(n))",
		"bodies of for-in over a map do not depend on the key, so the unspecified key order cannot change the effect trace",
		fmt.Sprintf("bounded liveness: a run must return within %d simulated events after the signal; control runs measure the largest gap between consecutive polls and the check exits 2 if it exceeds a tenth of the bound", BAfter),
		"the probe builtin p is added to (never replaces an entry of) the real function tables; v2 has no builtin table of its own, p is its only function",
	}
}

// ---------------------------------------------------------------------------
// generation

type gen struct {
	r        *simrt.RNG
	nextP    int64
	allowUse bool
	callees  []string
	nonTerm  float64
	forIn    float64
	maxDepth int
}

func (g *gen) v() string { return fmt.Sprintf("v%d", g.r.Intn(3)) }

func (g *gen) cond() string {
	switch g.r.Intn(10) {
	case 8:
		return "idf(1) == 1" // a call in value position: polls inside the evaluation of an expression
	case 9:
		return fmt.Sprintf("idf(%d) == 1", g.r.Intn(2))
	case 0:
		return "true"
	case 1:
		return "false"
	case 2:
		return fmt.Sprintf("%s == %d", g.v(), g.r.Intn(4))
	case 3:
		return fmt.Sprintf("%s %% 2 == 0", g.v())
	case 4:
		return fmt.Sprintf("%s >= %d", g.v(), 1+g.r.Intn(3))
	default:
		return fmt.Sprintf("%s < %d", g.v(), 1+g.r.Intn(4))
	}
}

func (g *gen) iterLit() string {
	n := g.r.Intn(5)
	switch g.r.Intn(3) {
	case 0:
		xs := make([]string, n)
		for i := range xs {
			xs[i] = fmt.Sprint(i + 1)
		}
		return "[" + strings.Join(xs, ", ") + "]"
	case 1:
		return fmt.Sprintf("%q", "abcd"[:n])
	default:
		if n > 3 {
			n = 3
		}
		xs := make([]string, n)
		for i := range xs {
			xs[i] = fmt.Sprintf("%q: %d", string(rune('a'+i)), i)
		}
		return "{" + strings.Join(xs, ", ") + "}"
	}
}

func (g *gen) block(depth int, inLoop bool, max int) []plgen.Stmt {
	n := g.r.Intn(max + 1)
	var out []plgen.Stmt
	for i := 0; i < n; i++ {
		out = append(out, g.stmt(depth, inLoop))
	}
	return out
}

func (g *gen) stmt(depth int, inLoop bool) plgen.Stmt {
	c := g.r.Intn(100)
	switch {
	case c < 30 || depth >= g.maxDepth && c < 70:
		g.nextP++
		if g.r.Intn(5) == 0 {
			// the effect's argument is itself a call
			return plgen.Stmt{K: "raw", N: g.nextP, Arg: fmt.Sprintf("q(idf(%d))", g.nextP)}
		}
		return plgen.Stmt{K: "p", N: g.nextP}
	case c < 42:
		return plgen.Stmt{K: "inc", V: g.v()}
	case c < 50 && inLoop:
		if g.r.Intn(2) == 0 {
			return plgen.Stmt{K: "break"}
		}
		return plgen.Stmt{K: "continue"}
	case c < 56 && inLoop:
		// guarded exit from the loop
		k := "break"
		if g.r.Intn(4) == 0 {
			k = "continue"
		}
		return plgen.Stmt{K: "if", Cond: fmt.Sprintf("%s >= %d", g.v(), 1+g.r.Intn(4)), Body: []plgen.Stmt{{K: k}}}
	case c < 62 && g.allowUse && len(g.callees) > 0:
		// every script is the target of at most one call site in the whole set:
		// keeps the workload clear of the loader's repeated-callee/diamond handling (that is C09's subject)
		i := g.r.Intn(len(g.callees))
		name := g.callees[i]
		g.callees = append(g.callees[:i], g.callees[i+1:]...)
		return plgen.Stmt{K: "use", Arg: name, N: int64(g.r.Intn(3))}
	case depth >= g.maxDepth:
		return plgen.Stmt{K: "inc", V: g.v()}
	case c < 78:
		// three-clause for
		v := g.v()
		s := plgen.Stmt{K: "for"}
		if g.r.Chance(g.nonTerm) {
			// deliberately suspicious shapes: missing clauses, constant conditions
			switch g.r.Intn(5) {
			case 0: // for ;; {}
			case 1:
				s.Cond = "true"
				s.Post = fmt.Sprintf("%s = %s + 1", v, v)
			case 2:
				s.Cond = fmt.Sprintf("%s < %d", v, 2+g.r.Intn(3)) // no increment clause
			case 3:
				s.Init = fmt.Sprintf("%s = 0", v)
				s.Cond = fmt.Sprintf("%s >= 0", v)
				s.Post = fmt.Sprintf("%s = %s + 1", v, v)
			case 4:
				s.Post = fmt.Sprintf("%s = %s + 1", v, v)
			}
			if g.r.Intn(3) == 0 {
				return s // empty body
			}
			s.Body = g.block(depth+1, true, 3)
			return s
		}
		if g.r.Intn(4) != 0 {
			s.Init = fmt.Sprintf("%s = 0", v)
		}
		s.Cond = fmt.Sprintf("%s < %d", v, 1+g.r.Intn(4))
		if g.r.Intn(4) != 0 {
			s.Post = fmt.Sprintf("%s = %s + 1", v, v)
			s.Body = g.block(depth+1, true, 3)
		} else {
			s.Body = append(g.block(depth+1, true, 2), plgen.Stmt{K: "inc", V: v})
		}
		return s
	case c < 78+int(g.forIn*100):
		return plgen.Stmt{K: "forin", V: "x", Iter: g.iterLit(), Body: g.block(depth+1, true, 3)}
	default:
		s := plgen.Stmt{K: "if", Cond: g.cond(), Body: g.block(depth+1, inLoop, 3)}
		if g.r.Intn(2) == 0 {
			s.Has = true
			s.Else = g.block(depth+1, inLoop, 2)
		}
		return s
	}
}

// effectID maps the value an effect saw to an effect id: the integer itself, or a marker for
// "no value" / another type (which no uninterrupted run produces).
func effectID(v any) int64 {
	switch x := v.(type) {
	case int64:
		return x
	case nil:
		return -999999
	default:
		return -999998
	}
}

func hasLoop(ss []plgen.Stmt) bool {
	for i := range ss {
		if ss[i].K == "for" || ss[i].K == "forin" || hasLoop(ss[i].Body) || hasLoop(ss[i].Else) {
			return true
		}
	}
	return false
}

func usesUse(ss []plgen.Stmt) bool {
	for i := range ss {
		if ss[i].K == "use" || usesUse(ss[i].Body) || usesUse(ss[i].Else) {
			return true
		}
	}
	return false
}

func (Prop) Generate(seed uint64, tier string) *core.Plan {
	r := simrt.NewRNG(seed)
	g := &gen{r: r, maxDepth: 1 + r.Intn(3)}
	g.nonTerm = []float64{0, 0.15, 0.4, 0.8}[r.Intn(4)]
	g.forIn = []float64{0, 0.08, 0.15}[r.Intn(3)]
	w := Workload{Scripts: map[string][]plgen.Stmt{}}
	// callee scripts first (leaf, then mid) so that use() only points "down": no cycles
	ncallee := 0
	if r.Intn(3) == 0 {
		ncallee = 1 + r.Intn(3)
	}
	for i := 0; i < ncallee; i++ {
		name := fmt.Sprintf("c%d.p", i)
		g.allowUse = i > 0 && r.Intn(2) == 0
		body := g.block(0, false, 4)
		if !hasLoop(body) {
			body = append(body, g.stmt(0, false))
		}
		if r.Intn(2) == 0 {
			// the callee starts with an effect (visible if it is entered at all)
			g.nextP++
			body = append([]plgen.Stmt{{K: "p", N: g.nextP}}, body...)
		}
		if g.allowUse && len(g.callees) > 0 && r.Intn(2) == 0 {
			// tail position: use() of a deeper callee as the very last top-level statement
			j := r.Intn(len(g.callees))
			body = append(body, plgen.Stmt{K: "use", Arg: g.callees[j], N: int64(r.Intn(3))})
			g.callees = append(g.callees[:j], g.callees[j+1:]...)
		}
		w.Scripts[name] = body
		g.callees = append(g.callees, name)
	}
	g.allowUse = ncallee > 0
	for tries := 0; ; tries++ {
		body := g.block(0, false, 5)
		if hasLoop(body) || usesUse(body) || tries > 5 {
			if !hasLoop(body) && !usesUse(body) {
				body = append(body, plgen.Stmt{K: "for", Body: []plgen.Stmt{{K: "p", N: 999}}})
			}
			if g.allowUse && len(g.callees) > 0 && r.Intn(3) == 0 {
				j := r.Intn(len(g.callees))
				body = append(body, plgen.Stmt{K: "use", Arg: g.callees[j], N: int64(r.Intn(3))})
				g.callees = append(g.callees[:j], g.callees[j+1:]...)
			}
			if r.Intn(8) == 0 {
				// the whole script sits in an else branch (loops reachable only through `else`)
				body = []plgen.Stmt{{K: "if", Cond: "false", Body: []plgen.Stmt{{K: "inc", V: "v0"}}, Has: true, Else: body}}
			}
			w.Scripts["main.p"] = body
			break
		}
	}
	v2ok := true
	for _, b := range w.Scripts {
		if usesUse(b) {
			v2ok = false
		}
	}
	if len(w.Scripts) > 1 && !usesUse(w.Scripts["main.p"]) {
		// unreferenced callees are dead weight
		for k := range w.Scripts {
			if k != "main.p" {
				delete(w.Scripts, k)
			}
		}
		v2ok = !usesUse(w.Scripts["main.p"])
	}
	w.Interps = []string{"v1"}
	if v2ok {
		switch r.Intn(4) {
		case 0:
			w.Interps = []string{"v2"}
		case 1:
		default:
			w.Interps = []string{"v1", "v2"}
		}
	}
	if r.Intn(3) == 0 {
		w.SigKind = 1 + r.Intn(4)
	}
	w.AutoInstants = 24
	if tier == "thorough" {
		w.AutoInstants = 200
	}
	p := &core.Plan{Property: "C14", Version: core.HarnessVersion, Seed: seed, Tier: tier,
		Env:         core.Env{Budget: Budget},
		ChooserSeed: simrt.Mix(seed, 77),
		Rates:       simrt.Rates{Recycle: []float64{0, 0.5, 0.9}[r.Intn(3)], Purge: 0.02, Shuffle: 0.5},
	}
	p.SetWorkload(&w)
	return p
}

// ---------------------------------------------------------------------------
// execution

type effect struct {
	N   int64
	Seq uint64 // relative to run start
}

type signal struct {
	atEvent   uint64 // absolute event number
	atPoll    int
	polls     int
	firstTrue uint64   // absolute event of the first poll that returned true
	pollSeqs  []uint64 // absolute
}

func (s *signal) ExitSignal() bool {
	s.polls++
	simrt.Note('p', uint64(s.polls))
	now := simrt.EventSeq()
	s.pollSeqs = append(s.pollSeqs, now)
	fire := (s.atEvent != 0 && now >= s.atEvent) || (s.atPoll != 0 && s.polls >= s.atPoll)
	if fire && s.firstTrue == 0 {
		s.firstTrue = now
		if s.atPoll != 0 {
			// poll-indexed instant: the liveness bound starts when the signal first reports true
			simrt.SetBudget(BAfter)
		}
	}
	return fire
}

// The host decides what implements the Signal interface. Besides the pointer to a struct with state
// (the textbook form) hosts use stateless values that consult process-wide state: an empty struct,
// a typed nil pointer whose method is safe on a nil receiver, a function adapter. All of them must
// be polled like any other signal. hostSig points at the state of the run in progress.
var hostSig *signal

type emptySig struct{}

func (emptySig) ExitSignal() bool { return hostSig.ExitSignal() }

type nilSafeSig struct{ _ int }

func (*nilSafeSig) ExitSignal() bool { return hostSig.ExitSignal() }

type funcSig func() bool

func (f funcSig) ExitSignal() bool { return f() }

type valueSig struct{ flag bool } // a small struct passed by value (its fields happen to be zero)

func (valueSig) ExitSignal() bool { return hostSig.ExitSignal() }

// hostSignal wraps the run's signal state in the host's chosen implementation kind.
func hostSignal(kind int, st *signal) interface{ ExitSignal() bool } {
	hostSig = st
	switch kind {
	case 1:
		return emptySig{}
	case 2:
		return (*nilSafeSig)(nil)
	case 3:
		return funcSig(st.ExitSignal)
	case 4:
		return valueSig{}
	}
	return st
}

type runOut struct {
	effects  []effect
	err      *errchain.PlError
	blown    bool
	panicked interface{}
	start    uint64
	end      uint64
	sig      *signal
}

type runner struct {
	trace []effect
	start uint64
}

func (rn *runner) record(n int64) {
	simrt.Note('e', uint64(n))
	rn.trace = append(rn.trace, effect{N: n, Seq: simrt.EventSeq() - rn.start})
}

func (rn *runner) guarded(f func() *errchain.PlError, sig *signal, budget uint64) (out runOut) {
	rn.trace = nil
	simrt.SetBudget(budget)
	rn.start = simrt.EventSeq()
	if sig.atEvent != 0 {
		sig.atEvent += rn.start
	}
	out.start = rn.start
	out.sig = sig
	func() {
		defer func() {
			if r := recover(); r != nil {
				if simrt.Blown() {
					out.blown = true
				} else {
					out.panicked = r
				}
			}
		}()
		out.err = f()
	}()
	out.blown = out.blown || simrt.Blown()
	out.end = simrt.EventSeq()
	out.effects = rn.trace
	simrt.SetBudget(0)
	return out
}

func render(w *Workload) map[string]string {
	src := map[string]string{}
	for name, body := range w.Scripts {
		pre := "v0 = 0\nv1 = 0\nv2 = 0\n"
		if name != "main.p" && len(body) > 0 && body[0].K == "p" {
			// a callee that starts with an effect really starts with it: the variable
			// initialisation comes second (an effect-free first statement would hide a callee
			// that is entered although the run was already cancelled)
			src[name] = plgen.Render(body[:1], nil) + pre + plgen.Render(body[1:], nil)
			continue
		}
		src[name] = pre + plgen.Render(body, nil)
	}
	return src
}

func (Prop) Run(p *core.Plan) *core.Result {
	plenv.Quiet()
	var w Workload
	if err := p.GetWorkload(&w); err != nil {
		return &core.Result{Infra: "bad workload: " + err.Error()}
	}
	res := &core.Result{Faults: map[string]int{}, Probes: map[string]int{}}
	world := core.BeginWorld(p, 0, false)
	defer func() {
		res.Recorded = simrt.End()
		res.Events = world.Events
		res.Digest ^= world.Digest
	}()
	src := render(&w)
	res.Sig = core.Hash(src["main.p"], fmt.Sprint(srcKeys(src)), w.Interps, w.Instants, w.AutoInstants)
	rn := &runner{}
	for _, interp := range w.Interps {
		var exec func(sig *signal) *errchain.PlError
		switch interp {
		case "v1":
			calls, checks := plenv.Tables(map[string]runtime.FuncCall{
				"p": func(ctx *runtime.Task, e *ast.CallExpr) *errchain.PlError {
					rn.record(e.Param[0].IntegerLiteral().Val)
					return nil
				},
				// q(expr): the effect is the value of its argument; idf(n) returns n
				"q": func(ctx *runtime.Task, e *ast.CallExpr) *errchain.PlError {
					v, _, err := runtime.RunStmt(ctx, e.Param[0])
					if err != nil {
						return err
					}
					rn.record(effectID(v))
					return nil
				},
				"idf": func(ctx *runtime.Task, e *ast.CallExpr) *errchain.PlError {
					ctx.Regs.ReturnAppend(e.Param[0].IntegerLiteral().Val, ast.Int)
					return nil
				}}, map[string]runtime.FuncCheck{
				"p":   func(ctx *runtime.Task, e *ast.CallExpr) *errchain.PlError { return nil },
				"q":   func(ctx *runtime.Task, e *ast.CallExpr) *errchain.PlError { return nil },
				"idf": func(ctx *runtime.Task, e *ast.CallExpr) *errchain.PlError { return nil }})
			scripts, errs := engine.ParseScript(src, calls, checks)
			if len(errs) > 0 {
				return &core.Result{Infra: fmt.Sprintf("generated program rejected by the v1 loader: %v\n%s", errs, src["main.p"])}
			}
			root := scripts["main.p"]
			exec = func(sig *signal) *errchain.PlError {
				pt := input.GetPoint()
				defer input.PutPoint(pt)
				input.InitPt(pt, "m", map[string]string{"t": "1"}, map[string]any{"message": "x"}, world.BaseTime)
				return root.Run(pt, hostSignal(w.SigKind, sig))
			}
		case "v2":
			fn := map[string]*runtimev2.Fn{"p": {
				Call: func(ctx *runtimev2.Task, e *ast.CallExpr) *errchain.PlError {
					rn.record(e.Param[0].IntegerLiteral().Val)
					return nil
				},
				CallCheck: func(ctx *runtimev2.Task, e *ast.CallExpr) *errchain.PlError { return nil },
			}, "q": {
				Call: func(ctx *runtimev2.Task, e *ast.CallExpr) *errchain.PlError {
					if err := runtimev2.RunExpr(ctx, e.Param[0]); err != nil {
						return err
					}
					v, rerr := ctx.Regs.GetRet()
					if rerr != nil {
						rn.record(effectID(nil))
						return nil
					}
					rn.record(effectID(v.V))
					return nil
				},
				CallCheck: func(ctx *runtimev2.Task, e *ast.CallExpr) *errchain.PlError { return nil },
			}, "idf": {
				Call: func(ctx *runtimev2.Task, e *ast.CallExpr) *errchain.PlError {
					ctx.Regs.ReturnAppend(runtimev2.V{V: e.Param[0].IntegerLiteral().Val, T: ast.Int})
					return nil
				},
				CallCheck: func(ctx *runtimev2.Task, e *ast.CallExpr) *errchain.PlError { return nil },
			}}
			s, err := engine.ParseV2("main.p", src["main.p"], fn)
			if err != nil {
				return &core.Result{Infra: fmt.Sprintf("generated program rejected by the v2 loader: %v\n%s", err, src["main.p"])}
			}
			exec = func(sig *signal) *errchain.PlError { return s.Run(hostSignal(w.SigKind, sig)) }
		default:
			return &core.Result{Infra: "unknown interpreter " + interp}
		}
		// control run
		cs := &signal{}
		ctl := rn.guarded(func() *errchain.PlError { return exec(cs) }, cs, Budget)
		res.Evals++
		if ctl.panicked != nil {
			return &core.Result{Infra: fmt.Sprintf("control run panicked (%s): %v\n%s", interp, ctl.panicked, src["main.p"])}
		}
		if ctl.err != nil {
			res.Probes["control_run_error"]++
			res.Digest ^= core.Hash("ctlerr", ctl.err.Error())
			continue
		}
		if ctl.blown {
			res.Probes["nonterminating_program_"+interp]++
		} else {
			res.Probes["terminating_program_"+interp]++
		}
		total := ctl.end - ctl.start
		// largest gap between consecutive polls (calibration of the liveness bound)
		prev := ctl.start
		var runGap, gapAt uint64 // the largest gap of this control run and the event it starts at
		for _, ps := range ctl.sig.pollSeqs {
			if g := ps - prev; g > uint64(res.Probes["max_poll_gap_events"]) {
				res.Probes["max_poll_gap_events"] = int(g)
			}
			if g := ps - prev; g > runGap {
				runGap, gapAt = g, prev-ctl.start+1
			}
			prev = ps
		}
		if g := ctl.end - prev; g > runGap {
			runGap, gapAt = g, prev-ctl.start+1
		}
		instants := w.Instants
		if len(instants) == 0 {
			instants = autoInstants(p, &w, ctl, total)
			if runGap > BAfter/20 && gapAt <= total {
				// an unusually long stretch without a poll: the signal fires at its very beginning
				// (whether the stretch spans more than the statement in progress is for the oracle)
				instants = append(instants, Instant{Event: gapAt})
				res.Probes["instants_placed_in_long_unpolled_stretches"]++
			}
		}
		e0 := ctl.effects
		for _, in := range instants {
			if in.Event == 0 && in.Poll == 0 {
				continue
			}
			if ctl.blown && in.Event > Budget-BAfter {
				continue
			}
			sig := &signal{atEvent: in.Event, atPoll: in.Poll}
			budget := uint64(Budget)
			if in.Event != 0 {
				budget = in.Event + BAfter
			}
			out := rn.guarded(func() *errchain.PlError { return exec(sig) }, sig, budget)
			res.Evals++
			res.Digest ^= core.Hash(interp, in, len(out.effects), out.end-out.start, out.blown, sig.polls)
			if out.panicked != nil {
				res.Violation = &core.Violation{Class: "C14/panic", Key: "panic-" + interp,
					Detail: fmt.Sprintf("%s: run panicked after the signal (%+v): %v", interp, in, out.panicked)}
				return finish(res, &w, interp, in)
			}
			fired := sig.firstTrue != 0 || (in.Event != 0 && sig.atEvent <= out.end) || out.blown
			if fired {
				res.Faults["signal_"+interp]++
				if sig.firstTrue != 0 && len(out.effects) < len(e0) {
					res.NonTrivial = true
					res.Faults["signal_cut_run_short_"+interp]++
				}
				if in.Event != 0 {
					res.Faults["signal_mid_statement"]++
				}
			}
			if v := judge(interp, in, ctl, out, e0); v != nil {
				res.Violation = v
				return finish(res, &w, interp, in)
			}
			if sig.firstTrue != 0 && interp == "v1" && len(w.Scripts) > 1 {
				res.Probes["signal_observed_in_program_with_use"]++
			}
		}
		if interp == "v1" && runGap > BAfter/2 && len(w.Instants) == 0 {
			// no instant exposed a violation, yet the work between two polls comes near the liveness
			// bound: the bound must stay far above it, or "not prompt" means nothing
			return &core.Result{Infra: fmt.Sprintf("liveness bound too tight: poll gap %d events in a control run", runGap)}
		}
	}
	res.Sample = map[string]interface{}{"main.p": src["main.p"], "interps": w.Interps}
	return res
}

func srcKeys(m map[string]string) []string {
	var ks []string
	for k, v := range m {
		if k != "main.p" {
			ks = append(ks, k+"="+v)
		}
	}
	sort.Strings(ks)
	return ks
}

func finish(res *core.Result, w *Workload, interp string, in Instant) *core.Result {
	res.NonTrivial = true
	res.Sample = map[string]interface{}{"interp": interp, "instant": in}
	nw := *w
	nw.Interps = []string{interp}
	nw.Instants = []Instant{in}
	res.Pinned = &nw
	return res
}

// autoInstants derives signal instants from the control run (generation-time
// choice, made from the plan's seed so that it is a pure function of the plan).
func autoInstants(p *core.Plan, w *Workload, ctl runOut, total uint64) []Instant {
	r := simrt.NewRNG(simrt.Mix(p.ChooserSeed, 5))
	limit := total
	if ctl.blown {
		limit = Budget - BAfter
	}
	var out []Instant
	out = append(out, Instant{Event: 1})
	npolls := len(ctl.sig.pollSeqs)
	// the event just after each poll (the worst instant: the longest time until the next poll)
	var cands []Instant
	for k, ps := range ctl.sig.pollSeqs {
		rel := ps - ctl.start + 1
		if rel <= limit {
			cands = append(cands, Instant{Event: rel})
		}
		if k < 4000 {
			cands = append(cands, Instant{Poll: k + 1})
		}
	}
	for len(out) < w.AutoInstants*2/3 && len(cands) > 0 {
		i := r.Intn(len(cands))
		out = append(out, cands[i])
		cands[i] = cands[len(cands)-1]
		cands = cands[:len(cands)-1]
	}
	for len(out) < w.AutoInstants && limit > 1 {
		out = append(out, Instant{Event: 1 + r.Uint64()%limit})
	}
	_ = npolls
	return out
}

func judge(interp string, in Instant, ctl, out runOut, e0 []effect) *core.Violation {
	sig := out.sig
	key := func(c string) string { return c + "-" + interp }
	// (5) bounded liveness
	if out.blown {
		if in.Event != 0 {
			return &core.Violation{Class: "C14/not-prompt", Key: key("not-prompt"),
				Detail: fmt.Sprintf("%s: signal turned true at event %d of the run; the run had not returned %d events later (polls=%d)", interp, in.Event, BAfter, sig.polls)}
		}
		// poll-indexed instant: the k-th poll never happened within the budget, or the run ignored it
		if sig.firstTrue != 0 {
			return &core.Violation{Class: "C14/not-prompt", Key: key("not-prompt"),
				Detail: fmt.Sprintf("%s: poll %d returned true but the run kept going until the budget", interp, in.Poll)}
		}
		if !ctl.blown {
			return &core.Violation{Class: "C14/not-prompt", Key: key("not-prompt"),
				Detail: fmt.Sprintf("%s: a terminating program did not terminate in the interrupted run (poll instant %d never reached)", interp, in.Poll)}
		}
		return nil
	}
	// (1) returns without error
	if out.err != nil {
		return &core.Violation{Class: "C14/error-on-cancel", Key: key("error-on-cancel"),
			Detail: fmt.Sprintf("%s: cancelled run returned an error: %v", interp, out.err)}
	}
	// (2) prefix
	if len(out.effects) > len(e0) {
		return &core.Violation{Class: "C14/not-prefix", Key: key("not-prefix"),
			Detail: fmt.Sprintf("%s: interrupted run has %d effects, uninterrupted run %d", interp, len(out.effects), len(e0))}
	}
	for i := range out.effects {
		if out.effects[i].N != e0[i].N {
			return &core.Violation{Class: "C14/not-prefix", Key: key("not-prefix"),
				Detail: fmt.Sprintf("%s: effect #%d is p(%d), uninterrupted run has p(%d)", interp, i, out.effects[i].N, e0[i].N)}
		}
	}
	// (3) nothing after the signal was observed
	if sig.firstTrue != 0 {
		obs := sig.firstTrue - out.start
		for _, e := range out.effects {
			if e.Seq > obs {
				return &core.Violation{Class: "C14/effect-after-observed", Key: key("effect-after-observed"),
					Detail: fmt.Sprintf("%s: effect p(%d) at event %d after the signal was observed at event %d", interp, e.N, e.Seq, obs)}
			}
		}
	}
	// (4) at most the statement in progress
	var s uint64
	if in.Event != 0 {
		s = in.Event
	} else if sig.firstTrue != 0 {
		// poll-indexed: the signal "turned true" right after the previous poll
		if in.Poll >= 2 && in.Poll-2 < len(sig.pollSeqs) {
			s = sig.pollSeqs[in.Poll-2] - out.start + 1
		} else {
			s = 1
		}
	}
	if s != 0 {
		late := 0
		var lateN []int64
		for _, e := range out.effects {
			if e.Seq >= s {
				late++
				lateN = append(lateN, e.N)
			}
		}
		if late > 1 {
			return &core.Violation{Class: "C14/late-effects", Key: key("late-effects"),
				Detail: fmt.Sprintf("%s: %d effects %v after the signal turned true at event %d (at most the statement in progress may complete); polls=%d", interp, late, lateN, s, sig.polls)}
		}
		// a fired signal must cut a run that had more to do: if the program's remaining effects all happened, (4) has caught it above.
	}
	return nil
}

// ---------------------------------------------------------------------------
// shrinking

func (Prop) Shrink(p *core.Plan) []*core.Plan {
	var w Workload
	if p.GetWorkload(&w) != nil {
		return nil
	}
	var out []*core.Plan
	mk := func(nw Workload) {
		q := p.Clone()
		q.SetWorkload(&nw)
		out = append(out, q)
	}
	if len(w.Interps) > 1 {
		for _, i := range w.Interps {
			nw := w
			nw.Interps = []string{i}
			mk(nw)
		}
	}
	if len(w.Instants) > 1 {
		for _, in := range w.Instants {
			nw := w
			nw.Instants = []Instant{in}
			mk(nw)
		}
	}
	if len(w.Instants) == 1 {
		in := w.Instants[0]
		if in.Event > 1 {
			for _, e := range []uint64{1, in.Event / 2, in.Event - 1} {
				nw := w
				nw.Instants = []Instant{{Event: e}}
				mk(nw)
			}
		}
		if in.Poll > 1 {
			for _, k := range []int{1, in.Poll / 2, in.Poll - 1} {
				nw := w
				nw.Instants = []Instant{{Poll: k}}
				mk(nw)
			}
		}
	}
	names := make([]string, 0, len(w.Scripts))
	for n := range w.Scripts {
		names = append(names, n)
	}
	sort.Strings(names)
	for _, n := range names {
		if n != "main.p" {
			nw := w
			nw.Scripts = map[string][]plgen.Stmt{}
			for k, v := range w.Scripts {
				if k != n {
					nw.Scripts[k] = v
				}
			}
			mk(nw)
		}
	}
	for _, n := range names {
		for _, b := range plgen.ShrinkStmts(w.Scripts[n]) {
			nw := w
			nw.Scripts = map[string][]plgen.Stmt{}
			for k, v := range w.Scripts {
				nw.Scripts[k] = v
			}
			nw.Scripts[n] = b
			mk(nw)
		}
	}
	return out
}
