// Command verifsim is the simulation driver built inside the instrumented scratch copy.
package main

import (
	"fmt"
	"os"

	"github.com/GuanceCloud/platypus/internal/verifsim/core"
	_ "github.com/GuanceCloud/platypus/internal/verifsim/props"
)

func main() {
	if len(os.Args) < 2 {
		fmt.Fprintln(os.Stderr, "usage: verifsim batch|worker|replay ...")
		os.Exit(2)
	}
	switch os.Args[1] {
	case "batch":
		os.Exit(core.BatchMain(os.Args[2:]))
	case "worker":
		os.Exit(core.WorkerMain(os.Args[2:]))
	case "replay":
		os.Exit(core.ReplayMain(os.Args[2:]))
	default:
		if f, ok := core.Subcommands[os.Args[1]]; ok {
			os.Exit(f(os.Args[2:]))
		}
		fmt.Fprintln(os.Stderr, "unknown subcommand")
		os.Exit(2)
	}
}
