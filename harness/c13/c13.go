// Package c13 decides property C13: use() shares the point but not variables;
// an error in the callee aborts the caller with the call-site chain; exit()
// ends only its own script.
//
// The fault (run-time error, exit, host cancellation) is injected at a
// simulator-chosen dynamic step of a nested call tree: every step() probe call
// asks the simulator. An executable model of the small workload language gives
// the expected observation trace, final point and error chain.
package c13

import (
	"fmt"
	"sort"
	"strings"

	"github.com/GuanceCloud/platypus/internal/simrt"
	"github.com/GuanceCloud/platypus/internal/verifsim/core"
	"github.com/GuanceCloud/platypus/internal/verifsim/plenv"
	"github.com/GuanceCloud/platypus/internal/verifsim/plgen"
	"github.com/GuanceCloud/platypus/pkg/ast"
	"github.com/GuanceCloud/platypus/pkg/engine"
	"github.com/GuanceCloud/platypus/pkg/engine/runtime"
	"github.com/GuanceCloud/platypus/pkg/errchain"
	"github.com/GuanceCloud/platypus/pkg/inimpl/guancecloud/funcs"
	"github.com/GuanceCloud/platypus/pkg/inimpl/guancecloud/input"
)

// Statement encoding on top of plgen.Stmt:
//
//	K=raw, Op=set        V=var N=tag            `a = 7`
//	K=raw, Op=addk_lit   V=key N=tag            `add_key(k1, 7)`
//	K=raw, Op=addk_var   V=key Arg2=var         `add_key(k1, a)`
//	K=raw, Op=obs_var    V=var                  `obs(a)`
//	K=raw, Op=obs_key    V=key                  `obs(k1)`           (bare identifier falls through to the point)
//	K=raw, Op=obs_getkey V=key                  `obs(get_key(k1))`
//	K=raw, Op=step                              `step()`            fault carrier
//	K=use Arg=callee, K=exit
//	K=if N=0|1 (+else), K=for N=iterations V=loopvar, K=forin N=count V=loopvar
type Workload struct {
	Scripts  map[string][]plgen.Stmt `json:"scripts"` // "r.p" is the root
	StepRate float64                 `json:"step_rate"`
	// Runs: the root is run this many times in a row (fresh point each time) while
	// the pooled tasks of the earlier runs - possibly abandoned in the middle of a
	// nested block by an error, an exit or a cancellation - are handed out again.
	Runs int `json:"runs,omitempty"`
}

type Prop struct{}

func (Prop) ID() string { return "C13" }
func (Prop) Size(tier string) int {
	if tier == "thorough" {
		return 20000000
	}
	return 60000
}
func (Prop) Rule() string {
	return "plan = call tree of depth<=3 (root, mids, leaves; a callee may be used twice and from two callers) over the workload language {v = tag, add_key(k, tag|v), obs(v), obs(k), obs(get_key(k)), step(), a fault carrier in value position add_key(k, vstep(n)) / v = vstep(n) / obs(vstep(n)), containers built from literals or decoded from the message and edited in place, for loops whose post clause is an effectful call, use(), exit()} wrapped in if true/false, three-clause for and for-in, same variable and key names on both sides; every executed step() asks the simulator for a fault (none / run-time error / exit / host signal); evaluation = one run of the root; non-trivial = at least one use() executed and the trace compared is non-empty; distinct = hash of (script texts, fault sequence)"
}
func (Prop) Assumptions() []string {
	return []string{
		"the executable model of the workload language encodes v1 scoping (block scopes for if/for bodies, assignment updates the nearest enclosing definition) - these rules are C03's subject and are taken as given here",
		"probe builtins obs/step are added to the real function tables; step's exit uses the real funcs.Exit, its error the real runtime.NewRunError",
	}
}

// message is the input text of every run: a JSON document large enough to pass size thresholds
var message = `{"n": 0, "u": {"n": 0}, "pad": "` + strings.Repeat("x", 300) + `"}`

var varNames = []string{"a", "b"}
var keyNames = []string{"k1", "k2"}

type gen struct {
	r       *simrt.RNG
	tag     int64
	callees []string
	maxNest int
	pExit   float64
	pStep   float64
	// loopDepth counts the enclosing loops of the statement being generated
	loopDepth int
	maxIter   int
}

func (g *gen) leaf() plgen.Stmt {
	g.tag++
	v := varNames[g.r.Intn(len(varNames))]
	k := keyNames[g.r.Intn(len(keyNames))]
	c := g.r.Intn(100)
	switch {
	case c < 2:
		// a nested constant literal updated in place: every execution starts from the literal
		return plgen.Stmt{K: "raw", Op: "acc", Arg: "acc = [[0]]; acc[0][0] = acc[0][0] + 1; obs(acc[0][0])"}
	case c < 4:
		return plgen.Stmt{K: "raw", Op: "acc", Arg: "acc = {\"a\": {\"n\": 0}}; acc[\"a\"][\"n\"] = acc[\"a\"][\"n\"] + 1; obs(acc[\"a\"][\"n\"])"}
	case c < 6:
		// a container obtained from a builtin (the decoded message) is the script's own as well:
		// every execution, in whichever script of the call tree, starts from the message
		if g.r.Intn(2) == 0 {
			return plgen.Stmt{K: "raw", Op: "accj", Arg: "acc = load_json(_); acc[\"n\"] = acc[\"n\"] + 1; obs(acc[\"n\"])"}
		}
		return plgen.Stmt{K: "raw", Op: "accj", Arg: "acc = load_json(_); acc[\"u\"][\"n\"] = acc[\"u\"][\"n\"] + 1; obs(acc[\"u\"][\"n\"])"}
	case c < 16:
		return plgen.Stmt{K: "raw", Op: "set", V: v, N: g.tag, Arg: fmt.Sprintf("%s = %d", v, g.tag)}
	case c < 28:
		return plgen.Stmt{K: "raw", Op: "addk_lit", V: k, N: g.tag, Arg: fmt.Sprintf("add_key(%s, %d)", k, g.tag)}
	case c < 36:
		return plgen.Stmt{K: "raw", Op: "addk_var", V: k, Arg2: v, Arg: fmt.Sprintf("add_key(%s, %s)", k, v)}
	case c < 52:
		return plgen.Stmt{K: "raw", Op: "obs_var", V: v, Arg: fmt.Sprintf("obs(%s)", v)}
	case c < 62:
		return plgen.Stmt{K: "raw", Op: "obs_key", V: k, Arg: fmt.Sprintf("obs(%s)", k)}
	case c < 70:
		return plgen.Stmt{K: "raw", Op: "obs_getkey", V: k, Arg: fmt.Sprintf("obs(get_key(%s))", k)}
	case c < 70+int(g.pStep*100):
		switch g.r.Intn(6) {
		case 0:
			// the fault carrier in value position: the error travels through the enclosing builtin /
			// assignment before it reaches the use() call sites
			return plgen.Stmt{K: "raw", Op: "vstep_addk", V: k, N: g.tag, Arg: fmt.Sprintf("add_key(%s, vstep(%d))", k, g.tag)}
		case 1:
			return plgen.Stmt{K: "raw", Op: "vstep_set", V: v, N: g.tag, Arg: fmt.Sprintf("%s = vstep(%d)", v, g.tag)}
		case 2:
			return plgen.Stmt{K: "raw", Op: "vstep_obs", N: g.tag, Arg: fmt.Sprintf("obs(vstep(%d))", g.tag)}
		}
		return plgen.Stmt{K: "raw", Op: "step", Arg: "step()"}
	case c < 70+int(g.pStep*100)+int(g.pExit*100):
		return plgen.Stmt{K: "exit"}
	default:
		if len(g.callees) > 0 {
			return plgen.Stmt{K: "use", Arg: g.callees[g.r.Intn(len(g.callees))], N: int64(g.r.Intn(3))}
		}
		return plgen.Stmt{K: "raw", Op: "obs_var", V: v, Arg: fmt.Sprintf("obs(%s)", v)}
	}
}

func (g *gen) block(nest, max int) []plgen.Stmt {
	n := 1 + g.r.Intn(max)
	var out []plgen.Stmt
	for i := 0; i < n; i++ {
		switch {
		case nest < g.maxNest && g.r.Intn(5) == 0:
			out = append(out, g.wrap(nest))
		case g.loopDepth > 0 && g.r.Intn(12) == 0:
			// break / continue, bare or guarded, only inside a loop of this script
			k := []string{"break", "continue"}[g.r.Intn(2)]
			if g.r.Intn(2) == 0 {
				out = append(out, plgen.Stmt{K: k})
			} else {
				n := int64(g.r.Intn(2))
				out = append(out, plgen.Stmt{K: "if", N: n, Cond: map[int64]string{0: "false", 1: "true"}[n], Body: []plgen.Stmt{{K: k}}})
			}
		default:
			out = append(out, g.leaf())
		}
	}
	return out
}

func (g *gen) wrap(nest int) plgen.Stmt {
	switch g.r.Intn(4) {
	case 0:
		n := int64(1)
		if g.r.Intn(4) == 0 {
			n = 0
		}
		s := plgen.Stmt{K: "if", N: n, Cond: map[int64]string{0: "false", 1: "true"}[n], Body: g.block(nest+1, 3)}
		for k := g.r.Intn(4); k > 0 && g.r.Intn(2) == 0; k-- {
			bn := int64(g.r.Intn(2))
			s.Elifs = append(s.Elifs, plgen.Branch{Cond: map[int64]string{0: "false", 1: "true"}[bn], N: bn, Body: g.block(nest+1, 2)})
		}
		if g.r.Intn(3) == 0 {
			s.Has = true
			s.Else = g.block(nest+1, 2)
		}
		return s
	case 1, 2:
		n := int64(g.r.Intn(g.maxIter))
		v := fmt.Sprintf("i%d", nest)
		g.loopDepth++
		body := g.block(nest+1, 3)
		g.loopDepth--
		if g.r.Intn(6) == 0 {
			// the post clause is a call with an effect; the counter is advanced first thing in the body.
			// The post clause belongs to the iteration: it runs after a completed body (also after
			// continue), not after break, exit(), cancellation or an error
			g.tag++
			body = append([]plgen.Stmt{{K: "raw", Op: "incv", V: v, Arg: fmt.Sprintf("%s = %s + 1", v, v)}}, body...)
			return plgen.Stmt{K: "for", Op: "postobs", Arg2: fmt.Sprint(g.tag), N: n, V: v, Init: v + " = 0", Cond: fmt.Sprintf("%s < %d", v, n), Post: fmt.Sprintf("obs(%d)", g.tag), Body: body}
		}
		return plgen.Stmt{K: "for", N: n, V: v, Init: v + " = 0", Cond: fmt.Sprintf("%s < %d", v, n), Post: fmt.Sprintf("%s = %s + 1", v, v), Body: body}
	default:
		// for-in over a list, a map or a string: the body never looks at the loop variable, so the
		// (unspecified) order of map keys cannot matter; only the number of iterations does
		n := int64(g.r.Intn(4))
		xs := make([]string, n)
		iter := ""
		switch g.r.Intn(3) {
		case 0:
			for i := range xs {
				xs[i] = fmt.Sprint(i + 1)
			}
			iter = "[" + strings.Join(xs, ", ") + "]"
		case 1:
			for i := range xs {
				xs[i] = fmt.Sprintf("%q: %d", string(rune('p'+i)), i)
			}
			iter = "{" + strings.Join(xs, ", ") + "}"
		default:
			iter = fmt.Sprintf("%q", "wxyz"[:n])
		}
		g.loopDepth++
		body := g.block(nest+1, 3)
		g.loopDepth--
		return plgen.Stmt{K: "forin", N: n, V: fmt.Sprintf("x%d", nest), Iter: iter, Body: body}
	}
}

// maxDynamic bounds the number of statements a fault-free run of a generated call tree executes
// (loops in loops around use() multiply): the step budget of a run (3 000 000 events) is then two
// orders of magnitude above need, so that "did not return" can only mean non-termination.
const maxDynamic = 3000

// dynamicSize runs the model without faults and returns how many statements it executes (capped).
func dynamicSize(w *Workload) int {
	m := &model{w: w, pos: map[*plgen.Stmt]plgen.Pos{}, fields: map[string]*int64{}, hasKey: map[string]bool{}, limit: 50 * maxDynamic}
	root := &mframe{name: "r.p", scopes: []map[string]*int64{{}}}
	m.stmts(root, w.Scripts["r.p"])
	return m.executed
}

func (Prop) Generate(seed uint64, tier string) *core.Plan {
	for attempt := uint64(0); ; attempt++ {
		p, w := generate(simrt.Mix(seed, attempt), seed, tier, attempt > 2)
		if dynamicSize(w)*w.Runs <= maxDynamic || attempt > 6 {
			if attempt > 6 {
				// give up on size: fall back to a trivially small tree
				w.Scripts = map[string][]plgen.Stmt{"r.p": {{K: "raw", Op: "obs_var", V: "a", Arg: "obs(a)"}}}
				p.SetWorkload(w)
			}
			return p
		}
	}
}

func generate(gseed, seed uint64, tier string, small bool) (*core.Plan, *Workload) {
	r := simrt.NewRNG(gseed)
	g := &gen{r: r, maxNest: r.Intn(3), maxIter: 4}
	if r.Intn(20) == 0 && !small {
		g.maxIter = 13 // occasionally long loops (N-th iteration effects)
	}
	g.pExit = []float64{0, 0.04, 0.1}[r.Intn(3)]
	g.pStep = []float64{0.05, 0.12, 0.2}[r.Intn(3)]
	w := Workload{Scripts: map[string][]plgen.Stmt{}}
	w.StepRate = []float64{0, 0.05, 0.2, 0.5}[r.Intn(4)]
	nleaf := r.Intn(3)
	nmid := r.Intn(3)
	var leaves, mids []string
	for i := 0; i < nleaf; i++ {
		name := fmt.Sprintf("l%d.p", i)
		g.callees = nil
		w.Scripts[name] = g.block(0, 6)
		leaves = append(leaves, name)
	}
	for i := 0; i < nmid; i++ {
		name := fmt.Sprintf("m%d.p", i)
		g.callees = leaves
		w.Scripts[name] = g.block(0, 7)
		mids = append(mids, name)
	}
	g.callees = append(append([]string{}, mids...), leaves...)
	body := g.block(0, 9)
	if len(g.callees) > 0 && !usesUse(body) {
		body = append(body, plgen.Stmt{K: "use", Arg: g.callees[r.Intn(len(g.callees))], N: int64(r.Intn(3))})
		body = append(body, g.leaf())
	}
	w.Scripts["r.p"] = body
	w.Runs = []int{1, 2, 3, 4}[r.Intn(4)]
	p := &core.Plan{Property: "C13", Version: core.HarnessVersion, Seed: seed, Tier: tier,
		ChooserSeed: simrt.Mix(seed, 13),
		Rates:       simrt.Rates{Recycle: []float64{0, 0.6, 0.95}[r.Intn(3)], Purge: 0.02, Shuffle: 0.3},
	}
	p.SetWorkload(&w)
	return p, &w
}

func usesUse(ss []plgen.Stmt) bool {
	for i := range ss {
		if ss[i].K == "use" || usesUse(ss[i].Body) || usesUse(ss[i].Else) {
			return true
		}
	}
	return false
}

// ---------------------------------------------------------------------------
// model

type obsRec struct {
	Script string
	What   string
	Val    string
}

type mframe struct {
	name      string
	scopes    []map[string]*int64 // nil pointer value = variable holding nil
	exit      bool
	brk, cont bool // a break / continue is pending (mirrors the interpreter's loop flags)
}

type chainEnt struct {
	File    string
	Ln, Col int
}

type model struct {
	w      *Workload
	pos    map[*plgen.Stmt]plgen.Pos
	faults []int // decision of the k-th executed step()
	nstep  int
	cancel bool
	trace  []obsRec
	fields map[string]*int64 // point keys written (nil value = nil field)
	hasKey map[string]bool
	uses   int
	err    []chainEnt // non-nil: aborted with this chain
	over   bool       // model ran out of recorded fault decisions
	// errLoose: the fault happened in value position; between the fault position and the use() call
	// sites the chain may hold further positions of the failing script's own file
	errLoose bool
	// executed counts dynamically executed statements; limit > 0 stops the model (size estimation)
	executed, limit int
}

func (f *mframe) lookup(v string) (*int64, bool) {
	for i := len(f.scopes) - 1; i >= 0; i-- {
		if x, ok := f.scopes[i][v]; ok {
			return x, true
		}
	}
	return nil, false
}

func (f *mframe) assign(v string, x *int64) {
	for i := len(f.scopes) - 1; i >= 0; i-- {
		if _, ok := f.scopes[i][v]; ok {
			f.scopes[i][v] = x
			return
		}
	}
	f.scopes[len(f.scopes)-1][v] = x
}

func (f *mframe) push() { f.scopes = append(f.scopes, map[string]*int64{}) }
func (f *mframe) pop()  { f.scopes = f.scopes[:len(f.scopes)-1] }

func show(x *int64) string {
	if x == nil {
		return "nil"
	}
	return fmt.Sprint(*x)
}

func i64(n int64) *int64 { return &n }

func (m *model) stop(f *mframe) bool { return f.exit || m.cancel || f.brk || f.cont }

// endIter mirrors the checks after a loop body: a pending break ends the loop, a pending
// continue is cleared, then exit / cancellation end the loop.
func (m *model) endIter(f *mframe) (leave bool) {
	if f.brk {
		f.brk = false
		return true
	}
	f.cont = false
	return f.exit || m.cancel
}

// stmts mirrors RunStmts: stop after an error; after every statement check exit/cancel.
func (m *model) stmts(f *mframe, ss []plgen.Stmt) bool {
	for i := range ss {
		if !m.stmt(f, &ss[i]) {
			return false
		}
		if m.stop(f) {
			return true
		}
	}
	return true
}

func (m *model) readKey(k string) *int64 {
	if m.hasKey[k] {
		return m.fields[k]
	}
	return nil
}

func (m *model) stmt(f *mframe, s *plgen.Stmt) bool {
	m.executed++
	if m.limit > 0 && m.executed > m.limit {
		return false // size estimation only: stop counting
	}
	switch s.K {
	case "raw":
		switch s.Op {
		case "set":
			f.assign(s.V, i64(s.N))
		case "addk_lit":
			m.fields[s.V], m.hasKey[s.V] = i64(s.N), true
		case "addk_var":
			// value of the variable as this script sees it; unset variable reads the point key of that name (none) -> nil
			x, _ := f.lookup(s.Arg2)
			m.fields[s.V], m.hasKey[s.V] = x, true
		case "incv":
			if x, _ := f.lookup(s.V); x != nil {
				f.assign(s.V, i64(*x+1))
			}
		case "acc":
			m.trace = append(m.trace, obsRec{f.name, "", "1"})
		case "accj":
			m.trace = append(m.trace, obsRec{f.name, "", "float64(1)"}) // JSON numbers are floats
		case "obs_var":
			x, _ := f.lookup(s.V)
			m.trace = append(m.trace, obsRec{f.name, "var " + s.V, show(x)})
		case "obs_key", "obs_getkey":
			m.trace = append(m.trace, obsRec{f.name, "key " + s.V, show(m.readKey(s.V))})
		case "vstep_addk", "vstep_set", "vstep_obs":
			d := 0
			if m.nstep < len(m.faults) {
				d = m.faults[m.nstep]
			} else {
				m.over = true
			}
			m.nstep++
			if d == 1 || d == 2 {
				// (in value position an exit decision is an error as well)
				p := m.pos[s]
				m.err = []chainEnt{{f.name, p.Ln, p.Col + strings.Index(s.Arg, "vstep")}}
				// the enclosing construct may add positions of its own (add_key does) - in its own file
				m.errLoose = true
				return false
			}
			switch s.Op {
			case "vstep_addk":
				m.fields[s.V], m.hasKey[s.V] = i64(s.N), true
			case "vstep_set":
				f.assign(s.V, i64(s.N))
			default:
				m.trace = append(m.trace, obsRec{f.name, "", fmt.Sprint(s.N)})
			}
			if d == 3 {
				m.cancel = true
			}
		case "step":
			d := 0
			if m.nstep < len(m.faults) {
				d = m.faults[m.nstep]
			} else {
				m.over = true
			}
			m.nstep++
			switch d {
			case 1:
				p := m.pos[s]
				m.err = []chainEnt{{f.name, p.Ln, p.Col}}
				return false
			case 2:
				f.exit = true
			case 3:
				m.cancel = true
			}
		}
	case "exit":
		f.exit = true
	case "break":
		f.brk = true
	case "continue":
		f.cont = true
	case "use":
		m.uses++
		callee := &mframe{name: s.Arg, scopes: []map[string]*int64{{}}}
		if !m.stmts(callee, m.w.Scripts[s.Arg]) {
			p := m.pos[s]
			m.err = append(m.err, chainEnt{f.name, p.Ln, p.Col})
			return false
		}
	case "if":
		f.push()
		defer f.pop()
		if s.N == 1 {
			f.push()
			ok := m.stmts(f, s.Body)
			f.pop()
			return ok
		}
		for bi := range s.Elifs {
			if s.Elifs[bi].N == 1 {
				f.push()
				ok := m.stmts(f, s.Elifs[bi].Body)
				f.pop()
				return ok
			}
		}
		if s.Has {
			f.push()
			ok := m.stmts(f, s.Else)
			f.pop()
			return ok
		}
	case "for":
		f.push()
		defer f.pop()
		f.assign(s.V, i64(0))
		iters := 0
		for {
			x, _ := f.lookup(s.V)
			if x == nil || *x >= s.N {
				break
			}
			f.push()
			ok := m.stmts(f, s.Body)
			f.pop()
			if !ok {
				return false
			}
			if m.endIter(f) {
				break
			}
			if s.Op == "postobs" {
				m.trace = append(m.trace, obsRec{f.name, "", s.Arg2})
				if iters++; iters > 100000 {
					m.over = true // (a shrinking candidate without the counter statement: no verdict)
					break
				}
				continue
			}
			x, _ = f.lookup(s.V)
			f.assign(s.V, i64(*x+1))
		}
	case "forin":
		f.push()
		f.push()
		defer func() { f.pop(); f.pop() }()
		for i := int64(1); i <= s.N; i++ {
			top := f.scopes[len(f.scopes)-1]
			for k := range top {
				delete(top, k)
			}
			f.assign(s.V, i64(i))
			if !m.stmts(f, s.Body) {
				return false
			}
			if m.endIter(f) {
				break
			}
		}
	}
	return true
}

// ---------------------------------------------------------------------------

func fmtVal(v any) string {
	switch x := v.(type) {
	case nil:
		return "nil"
	case int64:
		return fmt.Sprint(x)
	default:
		return fmt.Sprintf("%T(%v)", v, v)
	}
}

type sig struct{ on bool }

func (s *sig) ExitSignal() bool { simrt.Note('p', 0); return s.on }

func (Prop) Run(p *core.Plan) *core.Result {
	plenv.Quiet()
	var w Workload
	if err := p.GetWorkload(&w); err != nil {
		return &core.Result{Infra: "bad workload: " + err.Error()}
	}
	res := &core.Result{Faults: map[string]int{}, Probes: map[string]int{}}
	world := core.BeginWorld(p, 3000000, false)
	defer func() {
		res.Recorded = simrt.End()
		res.Events = world.Events
		res.Digest ^= world.Digest
		if world.Blown && res.Infra == "" && res.Violation == nil {
			res.Infra = "step budget exceeded"
		}
	}()
	// render with positions
	pos := map[*plgen.Stmt]plgen.Pos{}
	src := map[string]string{}
	names := make([]string, 0, len(w.Scripts))
	for n := range w.Scripts {
		names = append(names, n)
	}
	sort.Strings(names)
	for _, n := range names {
		src[n] = plgen.Render(w.Scripts[n], func(s *plgen.Stmt, ps plgen.Pos) { pos[s] = ps })
	}
	var trace []obsRec
	var faults []int
	hs := &sig{}
	calls, checks := plenv.Tables(map[string]runtime.FuncCall{
		"obs": func(ctx *runtime.Task, e *ast.CallExpr) *errchain.PlError {
			v, _, err := runtime.RunStmt(ctx, e.Param[0])
			if err != nil {
				return err
			}
			what := ""
			switch e.Param[0].NodeType {
			case ast.TypeIdentifier:
				n := e.Param[0].Identifier().Name
				if strings.HasPrefix(n, "k") {
					what = "key " + n
				} else {
					what = "var " + n
				}
			case ast.TypeCallExpr:
				if e.Param[0].CallExpr().Name != "vstep" {
					what = "key " + e.Param[0].CallExpr().Param[0].Identifier().Name
				}
			}
			simrt.Note('o', uint64(len(trace)))
			trace = append(trace, obsRec{ctx.Name(), what, fmtVal(v)})
			return nil
		},
		"vstep": func(ctx *runtime.Task, e *ast.CallExpr) *errchain.PlError {
			d := simrt.Choose(1, 4, w.StepRate)
			faults = append(faults, d)
			switch d {
			case 1, 2:
				res.Faults["runtime_error_in_value_position"]++
				return runtime.NewRunError(ctx, "injected run-time error", e.NamePos)
			case 3:
				res.Faults["signal"]++
				hs.on = true
			}
			ctx.Regs.ReturnAppend(e.Param[0].IntegerLiteral().Val, ast.Int)
			return nil
		},
		"step": func(ctx *runtime.Task, e *ast.CallExpr) *errchain.PlError {
			d := simrt.Choose(1, 4, w.StepRate)
			faults = append(faults, d)
			switch d {
			case 1:
				res.Faults["runtime_error"]++
				return runtime.NewRunError(ctx, "injected run-time error", e.NamePos)
			case 2:
				res.Faults["exit"]++
				return funcs.Exit(ctx, e)
			case 3:
				res.Faults["signal"]++
				hs.on = true
			}
			return nil
		},
	}, map[string]runtime.FuncCheck{
		"obs":  func(ctx *runtime.Task, e *ast.CallExpr) *errchain.PlError { return nil },
		"step": func(ctx *runtime.Task, e *ast.CallExpr) *errchain.PlError { return nil },
		"vstep": func(ctx *runtime.Task, e *ast.CallExpr) *errchain.PlError { return nil },
	})
	scripts, errs := engine.ParseScript(src, calls, checks)
	if len(errs) > 0 {
		return &core.Result{Infra: fmt.Sprintf("generated call tree rejected by the loader: %v", errs)}
	}
	oneRun := func(run int) *core.Result {
		pt := input.GetPoint()
		input.InitPt(pt, "m", map[string]string{"t": "1"}, map[string]any{"message": message}, world.BaseTime)
		var rerr *errchain.PlError
		pv, blown := core.Guard(func() { rerr = scripts["r.p"].Run(pt, hs) })
		res.Evals++
		if blown || pv != nil {
			simrt.SetBudget(0)
			var sb strings.Builder
			for _, n := range names {
				fmt.Fprintf(&sb, "--- %s\n%s", n, src[n])
			}
			res.NonTrivial = true
			if blown {
				res.Violation = &core.Violation{Class: "C13/no-return", Key: "no-return",
					Detail: fmt.Sprintf("the run of a terminating call tree did not return within %d simulated events\nfaults: %v\n%s", 3000000, faults, sb.String())}
			} else {
				res.Violation = &core.Violation{Class: "C13/panic", Key: "panic", Detail: fmt.Sprintf("run panicked: %v\nfaults: %v\n%s", pv, faults, sb.String())}
			}
			return res
		}
		gotFields := map[string]string{}
		for _, k := range keyNames {
			if v, ok := pt.Fields[k]; ok {
				gotFields[k] = fmtVal(v)
			}
		}
		input.PutPoint(pt)

		// model
		m := &model{w: &w, pos: pos, faults: faults, fields: map[string]*int64{}, hasKey: map[string]bool{}}
		root := &mframe{name: "r.p", scopes: []map[string]*int64{{}}}
		m.stmts(root, w.Scripts["r.p"])
		res.Digest ^= core.Hash(run, fmt.Sprint(trace), fmt.Sprint(faults), fmt.Sprint(gotFields), fmt.Sprint(rerr))
		res.Sig = core.Hash(res.Sig, fmt.Sprint(src), fmt.Sprint(faults))
		res.NonTrivial = res.NonTrivial || (m.uses > 0 && len(m.trace) > 0)
		res.Sample = map[string]interface{}{"scripts": src, "faults": faults}
		if m.uses > 0 {
			res.Probes["use_executed"] += m.uses
		}
		viol := func(class, key, detail string) *core.Result {
			res.NonTrivial = true
			var sb strings.Builder
			for _, n := range names {
				fmt.Fprintf(&sb, "--- %s\n%s", n, src[n])
			}
			res.Violation = &core.Violation{Class: "C13/" + class, Key: key, Detail: fmt.Sprintf("run #%d of the root on a fresh point: ", run) + detail + fmt.Sprintf("\nfaults per executed step(): %v (1=error 2=exit 3=signal)\n%s", faults, sb.String())}
			return res
		}
		if m.over || m.nstep != len(faults) {
			return viol("trace", "step-count", fmt.Sprintf("the run executed %d step() calls, the model %d", len(faults), m.nstep))
		}
		// trace equality (isolation, order of effects, resume, reach of exit)
		for i := 0; i < len(trace) || i < len(m.trace); i++ {
			if i >= len(trace) {
				return viol("trace", "trace-short", fmt.Sprintf("observation #%d missing: model expects %v", i, m.trace[i]))
			}
			if i >= len(m.trace) {
				key := "trace-extra"
				if m.err != nil {
					key = "effect-after-error"
				} else if m.cancel {
					key = "effect-after-cancel"
				}
				return viol("trace", key, fmt.Sprintf("observation #%d %v happened but the model expects the run to have stopped before it", i, trace[i]))
			}
			if trace[i] != m.trace[i] {
				key := "trace-value"
				if trace[i].Script != m.trace[i].Script || trace[i].What != m.trace[i].What {
					key = "trace-order"
				}
				return viol("trace", key, fmt.Sprintf("observation #%d is %v, model expects %v", i, trace[i], m.trace[i]))
			}
		}
		// final point
		for _, k := range keyNames {
			want, has := "", m.hasKey[k]
			if has {
				want = show(m.fields[k])
			}
			got, ghas := gotFields[k]
			if has != ghas || want != got {
				return viol("point", "final-point", fmt.Sprintf("final field %s: got %q (present=%v), model %q (present=%v)", k, got, ghas, want, has))
			}
		}
		// error
		if m.err == nil {
			if rerr != nil {
				return viol("error", "unexpected-error", fmt.Sprintf("run returned %v, model expects no error", rerr))
			}
			if m.cancel {
				res.Probes["cancelled_runs"]++
			}
			return nil
		}
		if rerr == nil {
			return viol("error", "error-swallowed", fmt.Sprintf("run returned nil, model expects an error with chain %v", m.err))
		}
		got := rerr.PosChain
		if m.errLoose && len(got) > len(m.err) {
			// positions the failing script's own constructs added between the fault and the first use()
			// call site: they must lie in the failing script's file; everything after them is exact
			extra := len(got) - len(m.err)
			for _, g := range got[1 : 1+extra] {
				if g.File != m.err[0].File {
					return viol("error", "chain-entry", fmt.Sprintf("error chain %v: the use() call sites %v must be the tail of the chain; entry %s:%d:%d lies between the fault and them but is not in the failing script %s", got, m.err[1:], g.File, g.Ln, g.Col, m.err[0].File))
				}
			}
			got = append(append([]errchain.Position{}, got[0]), got[1+extra:]...)
			res.Probes["error_chains_with_in_script_positions"]++
		}
		if len(got) != len(m.err) {
			return viol("error", "chain-length", fmt.Sprintf("error chain %v, model expects %v", rerr.PosChain, m.err))
		}
		for i, e := range m.err {
			g := got[i]
			if g.File != e.File || g.Ln != e.Ln || g.Col != e.Col {
				return viol("error", "chain-entry", fmt.Sprintf("error chain entry %d is %s:%d:%d, model expects %s:%d:%d (full chain %v)", i, g.File, g.Ln, g.Col, e.File, e.Ln, e.Col, rerr.PosChain))
			}
		}
		// rendering: file:ln:col: message, then one file:ln:col: line per further position
		want := fmt.Sprintf("%s:%d:%d: injected run-time error", m.err[0].File, m.err[0].Ln, m.err[0].Col)
		for _, e := range rerr.PosChain[1:] {
			want += fmt.Sprintf("\n%s:%d:%d:", e.File, e.Ln, e.Col)
		}
		if rerr.Error() != want {
			return viol("error", "rendering", fmt.Sprintf("error renders as %q, want %q", rerr.Error(), want))
		}
		res.Probes[fmt.Sprintf("error_chain_depth_%d", len(m.err))]++
		if run > 0 {
			res.Probes["runs_after_a_failed_or_cancelled_run"]++
		}
		return nil

	}
	runs := w.Runs
	if runs < 1 {
		runs = 1
	}
	for run := 0; run < runs; run++ {
		// every run of the history starts from a fresh point, an untriggered signal and an empty trace;
		// pooled tasks and points left by the earlier runs of this plan stay in the simulated pools
		trace, faults = nil, nil
		hs.on = false
		if out := oneRun(run); out != nil {
			return out
		}
	}
	return res
}

func (Prop) Shrink(p *core.Plan) []*core.Plan {
	var w Workload
	if p.GetWorkload(&w) != nil {
		return nil
	}
	var out []*core.Plan
	names := make([]string, 0, len(w.Scripts))
	for n := range w.Scripts {
		names = append(names, n)
	}
	sort.Strings(names)
	mk := func(mod func(nw *Workload)) {
		nw := Workload{StepRate: w.StepRate, Runs: w.Runs, Scripts: map[string][]plgen.Stmt{}}
		for k, v := range w.Scripts {
			nw.Scripts[k] = v
		}
		mod(&nw)
		q := p.Clone()
		q.SetWorkload(&nw)
		out = append(out, q)
	}
	if w.Runs > 1 {
		mk(func(nw *Workload) { nw.Runs = w.Runs - 1 })
	}
	for _, n := range names {
		if n != "r.p" {
			n := n
			mk(func(nw *Workload) { delete(nw.Scripts, n) })
		}
	}
	for _, n := range names {
		for _, b := range plgen.ShrinkStmts(w.Scripts[n]) {
			n, b := n, b
			mk(func(nw *Workload) { nw.Scripts[n] = b })
		}
	}
	return out
}
