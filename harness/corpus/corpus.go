// Package corpus generates realistic platypus scripts (v1 with the real
// builtins, v2 with a probe function) and input points for history- and
// schedule-based harnesses (C15, C16, C20). No model is attached: outcomes are
// compared against another execution of the same text.
package corpus

import (
	"fmt"
	"strings"

	"github.com/GuanceCloud/platypus/internal/simrt"
)

// PointT is a point template; every use gets fresh maps.
type PointT struct {
	Measurement string            `json:"m"`
	Msg         string            `json:"msg"`
	Tags        map[string]string `json:"tags,omitempty"`
	Str         map[string]string `json:"str,omitempty"` // string fields
	Int         map[string]int64  `json:"int,omitempty"`
}

func (p *PointT) Fields() map[string]any {
	f := map[string]any{"message": p.Msg}
	for k, v := range p.Str {
		f[k] = v
	}
	for k, v := range p.Int {
		f[k] = v
	}
	return f
}

func (p *PointT) TagsCopy() map[string]string {
	t := map[string]string{}
	for k, v := range p.Tags {
		t[k] = v
	}
	return t
}

var Messages = []string{
	"hello 42",
	"11,abc,end1",
	"33,abc,end3",
	`{"a":{"first":[2.2,1.1],"second":2,"third":"aBC","forth":true},"age":47,"ts":"1610960605000"}`,
	`<entry><fieldx>valuex</fieldx><fieldarray><fielda>element_a_1</fielda><fielda>element_a_2</fielda></fieldarray></entry>`,
	"select abc from def where x > 3 and y < 5",
	"http%3A%2F%2Fwww.example.com%2Fs%3Fwd%3D%E6%B5%8B%E8%AF%95",
	"  padded text  ",
	"",
	"127.0.0.1 - - [05/Mar/2024:12:30:45 +0800] \"GET /x HTTP/1.1\" 200 612",
	// SQL whose tokenisation depends on how a backslash inside a string literal is read
	"SELECT 'a\\' FROM t",
	"SELECT 'a\\' , b -- '\nFROM t",
	"SELECT 'a\\'' FROM t",
	"SELECT 'a\\\\' , b -- '\nFROM t",
	"select \"x\\\"y\" from t where a = 'b\\'' and c = 1",
	"INSERT INTO t VALUES ('it''s', \"q\", 3.5, NULL) /* c */",
	"multi\nline \"quoted\" text\twith\ttabs",
	// sizes: documents and lines beyond the thresholds where implementations switch strategy (64, 128, 1 KiB, 4 KiB)
	`{"age":30,"a":{"first":[1,2,3],"second":"s"},"user":{"name":"alice","roles":["admin","ops"]},"pad":"` + strings.Repeat("p", 80) + `"}`,
	`{"age":31,"a":{"first":[4,5,6],"second":"t"},"user":{"name":"bob","roles":["dev"]},"pad":"` + strings.Repeat("q", 1100) + `"}`,
	`[{"age":1},{"age":2},"` + strings.Repeat("r", 200) + `"]`,
	"hello 42 " + strings.Repeat("long line ", 500),
}

// Stamps: with year and zone, zone-less (default zone applies), year-less redis layout (clock applies).
var Stamps = []string{
	"05/Mar/2024:12:30:45 +0800",
	"2024-03-05 12:30:45",
	"14 May 2019 19:11:40.164",
	"14 May 19:11:40.164",
	"29 Feb 23:59:59.999",
	"171113 14:14:20",
	"2021/02/27 - 14:14:20",
	"not a time",
	"1610960605000",
	// instants around daylight-saving transitions (repeated and skipped local hours)
	"2024-11-03T08:30:00Z", // America/Los_Angeles 01:30 PDT, first pass
	"2024-11-03T09:30:00Z", // America/Los_Angeles 01:30 PST, second pass
	"2024-11-03T04:15:00Z", // America/St_Johns, repeated hour
	"2024-10-27T00:30:00Z", // Europe/Berlin 02:30 CEST, first pass
	"2024-10-27T01:30:00Z", // Europe/Berlin 02:30 CET, second pass
	"2024-04-06T15:45:00Z", // Australia/Lord_Howe, half-hour shift
	"2024-03-10T10:30:00Z", // America/Los_Angeles, just after the skipped hour
	"2024-11-03 01:30:00",  // zone-less and ambiguous in US zones
}

// Zones used by environment-sensitive harnesses (with and without DST, odd offsets).
var Zones = []string{"UTC", "Asia/Shanghai", "America/St_Johns", "America/Los_Angeles", "Europe/Berlin", "Australia/Lord_Howe", "Pacific/Kiritimati"}

// EdgeInstants are wall-clock instants (unix seconds) inside repeated or skipped local hours of the zones above.
var EdgeInstants = []int64{1730622600, 1730626200, 1730607300, 1729989000, 1729992600, 1712418300, 1710066600}

func GenPoint(r *simrt.RNG) PointT {
	msgs, stamps := Messages, Stamps
	if len(themeMsgs) > 0 && r.Intn(4) != 0 {
		msgs, stamps = themeMsgs, themeStamps
	}
	p := PointT{Measurement: "m", Msg: msgs[r.Intn(len(msgs))], Tags: map[string]string{"t1": "tv"},
		Str: map[string]string{"ts": stamps[r.Intn(len(stamps))]}, Int: map[string]int64{"n": int64(r.Intn(100)), "ms": 1610960605000}}
	tr := r
	switch tr.Intn(5) {
	case 0:
		p.Tags = map[string]string{} // a host without tags
	case 1:
		p.Tags["host"] = []string{"web-1", "web-2", ""}[tr.Intn(3)]
	case 2:
		p.Tags["host"], p.Tags["service"] = "web-2", "nginx"
	}
	if r.Intn(3) == 0 {
		p.Str["s"] = []string{"abc", "", "Zhang San", "13789123014"}[r.Intn(4)]
	}
	return p
}

// Theme is a plan-level pattern name shared by the scripts generated for one plan
// (set by the generator before it builds the plan's scripts; "" = none).
var Theme string

// SetTheme draws the plan-level names from the plan's generator.
func SetTheme(r *simrt.RNG) {
	Theme = fmt.Sprintf("pt%d", r.Intn(1000000))
	collide = r.Intn(3) == 0
	brokenHeavy = r.Intn(4) == 0
	themeZone = ""
	if r.Intn(5) == 0 {
		themeZone = moreZones[r.Intn(len(moreZones))]
	}
	// two featured recipes: in half of the plans every script draws mostly from them, so that
	// several scripts / tasks of one plan exercise the same builtin code with different arguments
	featured = [2]int{r.Intn(len(recipes)), r.Intn(len(recipes))}
	featuredOn = r.Intn(2) == 0
	// ... and in those plans the points share a small pool of messages and stamps, often a
	// contiguous group of the tables (related inputs: the SQL texts, the DST-edge stamps ...)
	themeMsgs, themeStamps = nil, nil
	if featuredOn {
		a := r.Intn(len(Messages))
		for i := 0; i < 3; i++ {
			themeMsgs = append(themeMsgs, Messages[(a+i)%len(Messages)])
		}
		b := r.Intn(len(Stamps))
		for i := 0; i < 3; i++ {
			themeStamps = append(themeStamps, Stamps[(b+i)%len(Stamps)])
		}
	}
}

var themeMsgs, themeStamps []string

var (
	featured   [2]int
	featuredOn bool
)


// collide makes the colliding-pattern recipe much more likely in this plan.
var collide bool

// themeZone: a zone name several scripts of the plan use (drawn from a list long enough that a worker
// process meets most names for the first time inside some plan)
var themeZone string

var moreZones = []string{"Pacific/Chatham", "Asia/Kathmandu", "Asia/Kolkata", "Asia/Tehran", "Asia/Yangon", "Australia/Adelaide", "Australia/Darwin", "America/Caracas",
	"America/Sao_Paulo", "America/Argentina/Buenos_Aires", "America/Mexico_City", "America/Chicago", "America/New_York", "America/Denver", "America/Anchorage", "Pacific/Honolulu",
	"Pacific/Auckland", "Pacific/Fiji", "Pacific/Tongatapu", "Asia/Dubai", "Asia/Karachi", "Asia/Dhaka", "Asia/Bangkok", "Asia/Singapore", "Asia/Seoul", "Asia/Vladivostok",
	"Europe/London", "Europe/Lisbon", "Europe/Paris", "Europe/Moscow", "Europe/Istanbul", "Europe/Kyiv", "Africa/Lagos", "Africa/Johannesburg", "Africa/Nairobi", "Africa/Casablanca",
	"Atlantic/Azores", "Atlantic/Reykjavik", "Indian/Maldives", "Indian/Mauritius", "Antarctica/Troll", "America/Halifax", "America/Bogota", "America/Lima", "America/Santiago",
	"Asia/Jerusalem", "Asia/Riyadh", "Asia/Tashkent", "Asia/Novosibirsk", "Asia/Hong_Kong", "Asia/Manila", "Australia/Perth", "Australia/Brisbane", "Pacific/Guam", "Pacific/Marquesas"}

// brokenHeavy: many members of this plan's script sets fail to load (syntax, check pass, stray jumps)
var brokenHeavy bool

type recipe func(r *simrt.RNG, id int) string

var recipes = []recipe{
	// grok with scoped add_pattern
	func(r *simrt.RNG, id int) string {
		return fmt.Sprintf("add_pattern(\"w%d\", \"[a-z]+\")\ngrok(_, \"%%{w%d:word} %%{NUMBER:num:int}\")\nadd_key(r%d, num)\n", id, id, id)
	},
	// the documented nested-scope pattern example
	func(r *simrt.RNG, id int) string {
		return `add_pattern("aa", "\\d{2}")
grok(_, "%{aa:aa}")
if false {
} else {
  add_pattern("bb", "[a-z]{3}")
  if aa == "11" {
    add_pattern("cc", "end1")
    grok(_, "%{aa:aa},%{bb:bb},%{cc:cc}")
  } elif aa == "22" {
    grok(_, "%{aa:aa},%{bb:bb},%{INT:cc}")
  } elif aa == "33" {
    add_pattern("bb", "[\\d]{5}")
    add_pattern("cc", "end3")
    grok(_, "%{aa:aa},%{bb:bb},%{cc:cc}")
  }
}
`
	},
	// the same pattern NAME means different things in different scripts, defined in an
	// outer frame and used in a nested block (a compiled-pattern cache keyed by text would mix them up)
	func(r *simrt.RNG, id int) string {
		// mostly the plan's own name (so that a process-wide cache is cold for this text and the
		// collision happens inside one plan), sometimes a well-known global name
		name := Theme
		if name == "" || r.Intn(4) == 0 {
			name = []string{"tok", "WORD", "INT", "sep"}[r.Intn(4)]
		}
		def := []string{"[a-z]+", "[a-z0-9]+", "\\\\d+", "[a-z]{2}", "hello"}[r.Intn(5)]
		if Theme != "" && r.Intn(3) == 0 {
			// a definition no earlier plan of this process used: the expanded expression itself is
			// new, so anything keyed on it (a compiled-pattern cache) is cold inside this plan
			def = "(?:[a-z]+|" + Theme + ")"
		}
		decl := fmt.Sprintf("add_pattern(%q, \"%s\")\n", name, def)
		if r.Intn(4) == 0 {
			decl = "" // relies on the global pattern of that name, or fails the check when there is none
		}
		switch r.Intn(3) {
		case 0:
			return decl + fmt.Sprintf("if true {\n  grok(_, \"%%{%s:word} %%{NUMBER:num}\")\n}\n", name)
		case 1:
			return decl + fmt.Sprintf("for i = 0; i < 1; i = i + 1 {\n  if true {\n    grok(_, \"%%{%s:word} %%{NUMBER:num}\")\n  }\n}\n", name)
		default:
			return decl + fmt.Sprintf("grok(_, \"%%{%s:word} %%{NUMBER:num}\")\n", name)
		}
	},
	// nginx-like grok with global patterns
	func(r *simrt.RNG, id int) string {
		return "grok(_, \"%{IPORHOST:client} - - \\\\[%{HTTPDATE:time}\\\\] \\\"%{WORD:verb} %{NOTSPACE:path} HTTP/%{NUMBER:ver}\\\" %{INT:status:int} %{INT:bytes:int}\")\ndefault_time(time)\n"
	},
	// default_time variants
	func(r *simrt.RNG, id int) string {
		tz := []string{"", `, "Asia/Shanghai"`, `, "+8"`, `, "America/St_Johns"`, `, "-3:30"`, `, "Nowhere/Land"`,
			`, "Europe/Berlin"`, `, "+1"`, `, "-11"`, `, "+5:45"`, `, "Asia/Tokyo"`, `, "+12:45"`, `, "America/Phoenix"`, `, "-7"`, `, "CST"`, `, "UTC"`,
			`, "Africa/Cairo"`, `, "Australia/Eucla"`, `, "+14"`, `, "Pacific/Apia"`}[r.Intn(20)]
		// near-miss spellings of a name (other letter case, stray blank): whether they are accepted is the
		// implementation's business, but it must be the same answer whatever ran before
		tz = NearMiss(r, tz)
		return fmt.Sprintf("default_time(ts%s)\nadd_key(after%d, 1)\n", tz, id)
	},
	// datetime formatting (local zone)
	func(r *simrt.RNG, id int) string {
		f := []string{"RFC3339", "ANSIC", "Kitchen", "nope"}[r.Intn(4)]
		return fmt.Sprintf("datetime(ms, \"ms\", %s)\n", NearMiss(r, fmt.Sprintf("%q", f)))
	},
	// counted loop writing the point
	func(r *simrt.RNG, id int) string {
		return fmt.Sprintf("acc = 0\nfor i = 0; i < %d; i = i + 1 {\n  acc = acc + i\n  if i == 2 {\n    continue\n  }\n  add_key(loop%d, acc)\n}\n", 1+r.Intn(5), id)
	},
	// run-time error in the middle of a loop (list index out of range)
	func(r *simrt.RNG, id int) string {
		return fmt.Sprintf("l = [1, 2]\nfor i = 0; i < %d; i = i + 1 {\n  add_key(idx%d, l[i])\n}\nadd_key(unreached%d, 1)\n", 2+r.Intn(3), id, id)
	},
	// exit in a nested block
	func(r *simrt.RNG, id int) string {
		return fmt.Sprintf("add_key(before%d, 1)\nfor x in [1, 2, 3] {\n  if x == %d {\n    exit()\n  }\n  add_key(seen%d, x)\n}\nadd_key(after%d, 1)\n", id, 1+r.Intn(4), id, id)
	},
	// key plumbing
	func(r *simrt.RNG, id int) string {
		ops := []string{"rename(nn, n)\n", "cast(n, \"str\")\n", "set_tag(s)\n", "set_tag(t2, \"x\")\n", "drop_key(ts)\n", "set_measurement(s, true)\n", "add_key(n, nil)\n", "rename(t9, t1)\n", "cast(ts, \"int\")\n", "add_key(lst, [1, \"a\", 2.5])\n",
			// input tags dropped, replaced, renamed onto, consumed, read and written
			"drop_key(t1)\n", "drop_key(host)\n", "rename(host, s)\n", "rename(t1, n)\n", "default_time(t1)\n", "set_measurement(host, true)\n",
			"add_key(host_copy, host)\n", "add_key(t1_copy, t1)\n", "add_key(service, \"unknown\")\n", "set_tag(host, \"h9\")\n", "cast(service, \"int\")\n", "add_key(t1, 5)\n", "set_tag(n)\n"}
		var b strings.Builder
		n := 1 + r.Intn(5)
		for i := 0; i < n; i++ {
			b.WriteString(ops[r.Intn(len(ops))])
		}
		return b.String()
	},
	// json
	func(r *simrt.RNG, id int) string {
		if r.Intn(2) == 0 {
			// the decoded document is the script's own: edited in place, decoded again, compared
			return fmt.Sprintf("j = load_json(_)\nif j != nil {\n  j[\"age\"] = j[\"age\"] + %d\n  j[\"a\"][\"first\"][0] = \"edited%d\"\n  add_key(age%d, j[\"age\"])\n  j2 = load_json(_)\n  add_key(age_again%d, j2[\"age\"])\n  add_key(first%d, j2[\"a\"][\"first\"][0])\n}\n", 1+r.Intn(5), id, id, id, id)
		}
		return fmt.Sprintf("j = load_json(_)\nif j != nil {\n  add_key(age%d, j[\"age\"])\n  add_key(cnt%d, len(j))\n}\n", id, id)
	},
	// xml
	func(r *simrt.RNG, id int) string {
		return "xml(_, '/entry/fieldarray//fielda[1]/text()', field_a_1)\nxml(_, '/entry/fieldx/text()', fx)\n"
	},
	// sql / url / strings
	func(r *simrt.RNG, id int) string {
		return "sql_cover(_)\n"
	},
	func(r *simrt.RNG, id int) string {
		return "url_decode(_)\nuppercase(s)\ntrim(_)\n"
	},
	func(r *simrt.RNG, id int) string {
		// several different (valid) patterns, often two in one script
		pats := []string{"(1[0-9]{2})[0-9]{4}([0-9]{4})", "[0-9]+", "[a-z]+", "l+", "\\\\s+", "^h"}
		out := fmt.Sprintf("replace(s, \"%s\", \"$1****$2\")\nstrfmt(fmtd, \"%%v-%%s\", n, s)\n", pats[r.Intn(len(pats))])
		if r.Intn(2) == 0 {
			out += fmt.Sprintf("replace(_, \"%s\", \"N\")\n", pats[r.Intn(len(pats))])
		}
		return out
	},
	// collections on the stack
	func(r *simrt.RNG, id int) string {
		return fmt.Sprintf("m = {\"a\": [1, 2, 3], \"b\": \"x\"}\nm[\"a\"][-1] = %d\nadd_key(m)\nq = [1, 2, 3, 4][1:3]\nadd_key(q)\nif \"b\" in m {\n  add_key(has_b, true)\n}\n", r.Intn(9))
	},
	// reads of names that other recipes use as variables, never assigned here:
	// a variable surviving in a recycled task would show up in the point
	func(r *simrt.RNG, id int) string {
		return "add_key(seen_acc, acc)\nadd_key(seen_c, c)\nadd_key(seen_j, j)\nadd_key(seen_q, q)\nif l != nil {\n  add_key(seen_l, 1)\n}\nif m != nil {\n  add_key(seen_m, 1)\n}\n"
	},
	// accumulators kept in list / map literals and updated from their own previous content
	// (a literal evaluated once and shared between runs would carry the sums over)
	func(r *simrt.RNG, id int) string {
		switch r.Intn(3) {
		case 0:
			return fmt.Sprintf("acc = [0, %d]\nfor i = 0; i < 3; i = i + 1 {\n  acc[0] = acc[0] + acc[1] + i\n}\nadd_key(total%d, acc[0])\n", 1+r.Intn(5), id)
		case 1:
			return fmt.Sprintf("cnt = {\"n\": 0, \"k\": [1, 2]}\ncnt[\"n\"] = cnt[\"n\"] + %d\ncnt[\"k\"][0] = cnt[\"k\"][0] * 2\nadd_key(cn%d, cnt[\"n\"])\nadd_key(ck%d, cnt[\"k\"][0])\n", 1+r.Intn(3), id, id)
		default:
			return fmt.Sprintf("seen = [\"a\", \"b\"]\nseen[1] = seen[1] + seen[0]\nadd_key(seen%d, seen[1])\nnums = [1.5, 2, 3]\nnums[2] = nums[2] + nums[0]\nadd_key(num%d, nums[2])\n", id, id)
		}
	},
	// builtins that fail at RUN time (the script still loads): the error object must be the same on every run
	func(r *simrt.RNG, id int) string {
		switch r.Intn(4) {
		case 0:
			return fmt.Sprintf("add_key(pre%d, 1)\nreplace(s, \"(?=x)\", \"y\")\nadd_key(post%d, 1)\n", id, id)
		case 1:
			return fmt.Sprintf("add_key(pre%d, 1)\nreplace(_, \"[a-\", \"y\")\n", id)
		case 2:
			return fmt.Sprintf("datetime(ms, \"ms\", \"no-such-layout\")\nadd_key(post%d, 1)\n", id)
		default:
			return fmt.Sprintf("zz = {\"a\": 1}\nadd_key(pre%d, zz[\"a\"][0])\n", id)
		}
	},
	// printf / strfmt with several arguments, one of which may fail at run time after others were evaluated
	func(r *simrt.RNG, id int) string {
		d := r.Intn(3)
		return fmt.Sprintf("dv = %d\nprintf(\"%%v %%v %%v\\n\", \"p%d\", n, 10 / dv)\nstrfmt(sf%d, \"%%v|%%v\", n, \"x\")\n", d, id, id)
	},
	// long digit strings cast to numbers
	func(r *simrt.RNG, id int) string {
		v := []string{"1700000000123456789", "-9007199254740993", "123456789012345678901234567890", "0000000000000000042", "12345678901234.5"}[r.Intn(5)]
		return fmt.Sprintf("add_key(big%d, %q)\ncast(big%d, %q)\nadd_key(cp%d, big%d)\n", id, v, id, []string{"int", "float", "str", "bool"}[r.Intn(4)], id, id)
	},
	// infinite loop: only useful with cancellation
	func(r *simrt.RNG, id int) string {
		return fmt.Sprintf("c = 0\nfor ;; {\n  c = c + 1\n  if c > %d {\n    break\n  }\n}\nadd_key(spins, c)\n", 5+r.Intn(40))
	},
}

// NearMiss returns, one time in five, a near-miss spelling of the name inside a quoted argument text:
// lower case, upper case, or a trailing blank. (Names resolved through caches, tables or the file
// system are where an earlier successful lookup can change the answer for a later near miss.)
func NearMiss(r *simrt.RNG, quoted string) string {
	if r.Intn(5) != 0 || !strings.Contains(quoted, "\"") {
		return quoted
	}
	a, b := strings.Index(quoted, "\""), strings.LastIndex(quoted, "\"")
	if b <= a+1 {
		return quoted
	}
	name := quoted[a+1 : b]
	switch r.Intn(3) {
	case 0:
		name = strings.ToLower(name)
	case 1:
		name = strings.ToUpper(name)
	default:
		name += " "
	}
	return quoted[:a+1] + name + quoted[b:]
}

// GenScript returns a valid v1 script made of 1-3 recipes.
func GenScript(r *simrt.RNG, id int) string {
	if r.Intn(6) == 0 {
		return GenProgram(r, id, false)
	}
	n := 1 + r.Intn(3)
	var b strings.Builder
	if themeZone != "" && r.Intn(4) != 0 {
		// the plan's own zone, named by several of its scripts - in its canonical spelling or a near miss
		z := themeZone
		switch r.Intn(20) {
		case 0, 1, 2, 3, 4:
			z = strings.ToLower(z)
		case 5, 6, 7:
			z = strings.ToUpper(z)
		case 8, 9:
			z += " "
		}
		fmt.Fprintf(&b, "default_time(ts, %q)\nadd_key(zoned%d, 1)\n", z, id)
	}
	for i := 0; i < n; i++ {
		k := r.Intn(len(recipes))
		if featuredOn && r.Intn(2) == 0 {
			k = featured[r.Intn(2)]
		}
		if collide && r.Intn(3) == 0 {
			k = 2 // the colliding-pattern recipe
		}
		b.WriteString(recipes[k](r, id*10+i))
	}
	return b.String()
}

// Layout rewrites a script text without changing its meaning: whitespace between a function
// name and its parenthesis, blank lines, trailing comments, a comment mentioning a call.
func Layout(r *simrt.RNG, src string) string {
	if r.Intn(3) != 0 {
		return src
	}
	lines := strings.Split(src, "\n")
	for i, ln := range lines {
		t := strings.TrimLeft(ln, " ")
		if t == "" || strings.HasPrefix(t, "}") || strings.Contains(ln, "\"") && strings.Count(ln, "(") > 1 {
			continue
		}
		switch r.Intn(6) {
		case 0:
			if k := strings.Index(ln, "("); k > 0 && isIdentByte(ln[k-1]) && !strings.Contains(ln[:k], "\"") {
				lines[i] = ln[:k] + " " + ln[k:]
			}
		case 1:
			if k := strings.Index(ln, "("); k > 0 && isIdentByte(ln[k-1]) && !strings.Contains(ln[:k], "\"") && !strings.HasSuffix(t, "{") {
				lines[i] = ln[:k] + "\t(" + ln[k+1:]
			}
		case 2:
			if !strings.HasSuffix(t, "{") {
				lines[i] = ln + "  # trailing note"
			}
		case 3:
			lines[i] = ln + "\n"
		}
	}
	return strings.Join(lines, "\n")
}

func isIdentByte(c byte) bool {
	return c == '_' || (c >= 'a' && c <= 'z') || (c >= 'A' && c <= 'Z') || (c >= '0' && c <= '9')
}

// GenSet returns a script set: valid scripts, use() links, and sometimes broken members.
func GenSet(r *simrt.RNG) map[string]string {
	n := 1 + r.Intn(4)
	set := map[string]string{}
	names := make([]string, n)
	for i := range names {
		names[i] = fmt.Sprintf("s%d.p", i)
	}
	for i := n - 1; i >= 0; i-- {
		body := GenScript(r, i)
		// links point to higher indices only (acyclic), sometimes to a missing or a broken script
		if i+1 < n && r.Intn(2) == 0 {
			body = fmt.Sprintf("use(%q)\n", names[i+1+r.Intn(n-i-1)]) + body
		}
		if r.Intn(30) == 0 {
			body += "use(\"missing.p\")\n"
		}
		nb := 36
		if brokenHeavy {
			nb = 9 // in such plans loads often fail, in many different ways
		}
		switch r.Intn(nb) {
		case 5:
			body = StrayJump(r, i) // valid except for a jump outside any loop
		case 0:
			body += "a = = 1\n" // unparsable
		case 1:
			body += "no_such_function(1)\n" // check failure
		case 2:
			body += "grok(_, \"%{NO_SUCH_PATTERN:x}\")\n" // check failure inside grok compilation
		case 3, 4:
			body = CheckFailure(r, body) // a check failure of any kind in any syntactic context
		}
		set[names[i]] = Layout(r, body)
	}
	return set
}

// checkFailing are statements the check pass rejects (the text parses): unknown function, wrong
// number / kind of arguments, undefined grok pattern, jumps outside a loop, non-string map key.
var checkFailing = []string{"no_such_function(1)", "cast(x)", "add_key()", "rename(a)", "grok(_, \"%{NO_SUCH_PATTERN:x}\")", "break", "continue",
	"add_key(1, 2)", "replace(s, \"[a-\", \"y\")", "zz = {1: 2}", "default_time(ts, 5, 6, 7)", "use(\"a.p\", 2)", "datetime(ms)", "set_tag(1)", "drop_key()"}

// CheckFailure puts one statement the check pass rejects into body: at the top level (front,
// middle or end) or inside an if / else / for / for-in body or nested two deep - whatever the check
// pass had on its stacks at that moment (loop nesting, pattern scopes, recorded use() calls) is
// what it leaves behind. A jump inside a loop is legal, so in loop contexts another kind is drawn.
func CheckFailure(r *simrt.RNG, body string) string {
	k := r.Intn(len(checkFailing))
	st := checkFailing[k]
	ctx := r.Intn(8)
	if (st == "break" || st == "continue") && ctx >= 3 && ctx != 5 {
		// inside a loop a jump is fine: keep it (a legal neighbour) and add a failing call after it
		st = "if false {\n" + st + "\n}\n" + checkFailing[r.Intn(5)]
	}
	wrapped := st + "\n"
	switch ctx {
	case 3:
		wrapped = "for i = 0; i < 2; i = i + 1 {\n  " + strings.ReplaceAll(st, "\n", "\n  ") + "\n}\n"
	case 4:
		wrapped = "for x in [1, 2] {\n  add_key(cf_seen, x)\n  " + strings.ReplaceAll(st, "\n", "\n  ") + "\n}\n"
	case 5:
		wrapped = "if true {\n  " + st + "\n} else {\n  add_key(cf_else, 1)\n}\n"
	case 6:
		wrapped = "for k in {\"a\": 1} {\n  if k == \"a\" {\n    for ;; {\n      " + strings.ReplaceAll(st, "\n", "\n      ") + "\n      break\n    }\n  }\n}\n"
	case 7:
		// in the loop's own clauses: the failing call is the condition's operand
		if !strings.Contains(st, "\n") && strings.HasSuffix(st, ")") {
			wrapped = "for i = 0; " + st + " == 1; i = i + 1 {\n  add_key(cf_never, 1)\n}\n"
		}
	}
	lines := strings.SplitAfter(body, "\n")
	// only between top-level statements (a line that starts in column one and the previous line closed its block)
	var cuts []int
	depth := 0
	for i, ln := range lines {
		if depth == 0 && !strings.HasPrefix(ln, " ") && !strings.HasPrefix(ln, "}") {
			cuts = append(cuts, i)
		}
		depth += strings.Count(ln, "{") - strings.Count(ln, "}")
	}
	cuts = append(cuts, len(lines))
	at := cuts[r.Intn(len(cuts))]
	return strings.Join(lines[:at], "") + wrapped + strings.Join(lines[at:], "")
}

// StrayJump is a script that is valid except for a jump outside any loop (directly or inside an if).
func StrayJump(r *simrt.RNG, id int) string {
	j := []string{"break", "continue"}[r.Intn(2)]
	switch r.Intn(3) {
	case 0:
		return fmt.Sprintf("add_key(sj%d, 1)\n%s\nadd_key(sj_after%d, 2)\n", id, j, id)
	case 1:
		return fmt.Sprintf("add_key(sj%d, 1)\nif n > 50 {\n  %s\n}\nadd_key(sj_after%d, 2)\n", id, j, id)
	default:
		return fmt.Sprintf("for i = 0; i < 2; i = i + 1 {\n  add_key(sj%d, i)\n}\n%s\n", id, j)
	}
}

// Mutate damages a source text (for PARSE operations): the result may be
// invalid, or trip the parser's internal recover.
func Mutate(r *simrt.RNG, s string) string {
	if len(s) == 0 {
		return "("
	}
	b := []byte(s)
	n := 1 + r.Intn(3)
	for i := 0; i < n; i++ {
		p := r.Intn(len(b))
		switch r.Intn(6) {
		case 0:
			b = append(b[:p], b[p+1:]...)
		case 1:
			junk := []string{"(", ")", "{", "}", "[", "\"", "'", "`", "0x", "1e", "1.2.3", "..", "=", "#", "\\", "%", "&&", "0b12", "1_0", "\x00", "\xff",
				// an operator applied to a malformed number trips the parser's internal recover()
				" -1e", " - 0x", " % 1e999", "\nzz = -1e\n", "\nf(-0x)\n"}[r.Intn(26)]
			b = append(b[:p], append([]byte(junk), b[p:]...)...)
		case 2:
			b = b[:p]
		case 3:
			b[p] = byte(r.Intn(256))
		case 4:
			b = append(b[:p], append([]byte("99999999999999999999999"), b[p:]...)...)
		case 5:
			b = append(b, []byte("\nif x { for ;; { ")...)
		}
		if i == n-1 && r.Intn(6) == 0 {
			// the very last thing in the source: an operator applied to a malformed number, no trailing newline
			// (the parser panics internally with the lookahead already at end of input)
			tail := []string{"\nzz = -0x", "\nzz = -1e999", "\nzz = 4 / 0x", "\nzz = 4 % 1e999 ", "\nzz = -1e # c"}[r.Intn(5)]
			b = append([]byte(strings.TrimRight(string(b), "\n")), []byte(tail)...)
		}
		if len(b) == 0 {
			b = []byte("[")
		}
	}
	return string(b)
}

// GenV2 returns a script for the v2 interpreter: every name is assigned before
// use, the only function is the probe out(x).
func GenV2(r *simrt.RNG, id int) string {
	if r.Intn(2) == 0 {
		return GenProgram(r, id, true)
	}
	var b strings.Builder
	fmt.Fprintf(&b, "a = %d\nb = \"s%d\"\nl = [1, 2, 3]\n", r.Intn(10), id)
	n := 1 + r.Intn(4)
	for i := 0; i < n; i++ {
		switch r.Intn(7) {
		case 0:
			fmt.Fprintf(&b, "for i = 0; i < %d; i = i + 1 {\n  a = a + i\n  out(a)\n}\n", 1+r.Intn(4))
		case 1:
			b.WriteString("for x in l {\n  if x == 2 {\n    continue\n  }\n  out(x)\n}\n")
		case 2:
			b.WriteString("m = {\"k\": a, \"l\": l}\nout(m[\"k\"])\n")
		case 3:
			fmt.Fprintf(&b, "out(l[%d])\n", r.Intn(5)) // may be out of range: run-time error
		case 4:
			b.WriteString("out(b + \"x\")\nout(a * 2 - 1)\n")
		case 5:
			b.WriteString("if a > 3 && b != \"\" {\n  out(true)\n} else {\n  out(false)\n}\n")
		case 6:
			b.WriteString("c = 0\nfor ;; {\n  c = c + 1\n  if c > 20 {\n    break\n  }\n}\nout(c)\n")
		}
	}
	return b.String()
}
