package corpus

import (
	"fmt"
	"strings"

	"github.com/GuanceCloud/platypus/internal/simrt"
)

// GenProgram produces a syntactically valid program with broad construct
// coverage (if/elif/else chains of every length, all loop forms, compound
// assignment, index/slice expressions, nested literals, all operators). Values
// are exported with add_key(kN, expr) on v1 and out(expr) on v2. No model is
// attached: a program may well end in a run-time error (division by zero, index
// out of range); outcomes are compared against another execution of the same text.
func GenProgram(r *simrt.RNG, id int, v2 bool) string {
	g := &pgen{r: r, v2: v2, id: id}
	var b strings.Builder
	// declarations first: every name is assigned before use (v2 requires it)
	b.WriteString("i1 = 3\ni2 = 0\nf1 = 1.5\ns1 = \"ab\"\ns2 = 'c d'\nb1 = true\nl1 = [1, 2, 3, 4]\nl2 = [\"x\", 2.5, nil, [7, 8]]\nm1 = {\"a\": 1, \"b\": [1, 2], \"c\": {\"d\": \"e\"}}\nn1 = nil\n")
	n := 3 + r.Intn(6)
	for i := 0; i < n; i++ {
		g.stmt(&b, 0, false)
	}
	g.emit(&b, 0, "i1")
	g.emit(&b, 0, "l1[0]")
	return b.String()
}

type pgen struct {
	r    *simrt.RNG
	v2   bool
	id   int
	nkey int
}

func (g *pgen) ind(b *strings.Builder, d int) { b.WriteString(strings.Repeat("  ", d)) }

func (g *pgen) emit(b *strings.Builder, d int, expr string) {
	g.ind(b, d)
	if g.v2 {
		fmt.Fprintf(b, "out(%s)\n", expr)
		return
	}
	g.nkey++
	fmt.Fprintf(b, "add_key(p%d_%d, %s)\n", g.id, g.nkey%7, expr)
}

func (g *pgen) intExpr(depth int) string {
	if depth > 2 || g.r.Intn(3) == 0 {
		return []string{"i1", "i2", "1", "2", "7", "0", "l1[0]", "l1[-1]", "m1[\"a\"]", "(i1)", "-i2", "+3"}[g.r.Intn(12)]
	}
	op := []string{"+", "-", "*", "/", "%"}[g.r.Intn(5)]
	rhs := g.intExpr(depth + 1)
	if (op == "/" || op == "%") && g.r.Intn(5) != 0 {
		rhs = []string{"2", "3", "(i1 + 1)"}[g.r.Intn(3)] // mostly non-zero divisors
	}
	if (op == "/" || op == "%") && rhs == "0" {
		rhs = "i2" // a literal zero divisor is rejected at load time; a variable one fails at run time
	}
	return fmt.Sprintf("%s %s %s", g.intExpr(depth+1), op, rhs)
}

func (g *pgen) strExpr() string {
	return []string{"s1", "s2", "\"lit\"", "s1 + s2", "s1 + \"-\" + s2", "m1[\"c\"][\"d\"]", "l2[0]", "s1[0:1]", "\"q\\\"uote\""}[g.r.Intn(9)]
}

func (g *pgen) anyExpr() string {
	switch g.r.Intn(8) {
	case 0:
		return g.strExpr()
	case 1:
		return "f1 * 2 + 0.25"
	case 2:
		return "l1[1:3]"
	case 3:
		return "[i1, s1, [i2]]"
	case 4:
		return "{\"k\": i1, \"v\": [s1]}"
	case 5:
		return g.cond(0)
	case 6:
		return "n1"
	default:
		return g.intExpr(0)
	}
}

func (g *pgen) cond(depth int) string {
	if depth > 1 || g.r.Intn(2) == 0 {
		return []string{
			"i1 > 2", "i2 == 0", "i1 != i2", "i1 <= 7", "i2 >= 1", "i1 < i2", "b1", "!b1", "s1 == \"ab\"", "s1 != s2",
			"\"a\" in m1", "\"z\" in m1", "\"b\" in s1", "2 in l1", "f1 > 1.0", "n1 == nil", "true", "false",
		}[g.r.Intn(18)]
	}
	op := []string{"&&", "||"}[g.r.Intn(2)]
	return fmt.Sprintf("(%s) %s (%s)", g.cond(depth+1), op, g.cond(depth+1))
}

func (g *pgen) block(b *strings.Builder, d int, inLoop bool) {
	n := g.r.Intn(3)
	for i := 0; i < n; i++ {
		g.stmt(b, d, inLoop)
	}
	if n == 0 && g.r.Intn(2) == 0 {
		g.emit(b, d, g.intExpr(1))
	}
}

func (g *pgen) stmt(b *strings.Builder, d int, inLoop bool) {
	c := g.r.Intn(100)
	switch {
	case c < 14:
		g.ind(b, d)
		fmt.Fprintf(b, "i%d = %s\n", 1+g.r.Intn(2), g.intExpr(0))
	case c < 24:
		g.ind(b, d)
		op := []string{"+=", "-=", "*=", "/=", "%="}[g.r.Intn(5)]
		rhs := []string{"1", "2", "3", "i1"}[g.r.Intn(4)]
		fmt.Fprintf(b, "i%d %s %s\n", 1+g.r.Intn(2), op, rhs)
	case c < 30:
		g.ind(b, d)
		fmt.Fprintf(b, "s1 = %s\n", g.strExpr())
	case c < 38:
		g.ind(b, d)
		switch g.r.Intn(4) {
		case 0:
			fmt.Fprintf(b, "l1[%d] = %s\n", g.r.Intn(5)-1, g.intExpr(1))
		case 1:
			fmt.Fprintf(b, "l1[0] += %d\n", 1+g.r.Intn(3))
		case 2:
			fmt.Fprintf(b, "m1[\"a\"] = m1[\"a\"] + %d\n", 1+g.r.Intn(3))
		default:
			fmt.Fprintf(b, "m1[\"b\"][%d] = %s\n", g.r.Intn(2), g.intExpr(1))
		}
	case c < 52:
		g.emit(b, d, g.anyExpr())
	case c < 72 && d < 3:
		// if / elif chains of every length, with and without else
		nc := 1 + g.r.Intn(7)
		for k := 0; k < nc; k++ {
			g.ind(b, d)
			if k == 0 {
				fmt.Fprintf(b, "if %s {\n", g.cond(0))
			} else {
				fmt.Fprintf(b, "} elif %s {\n", g.cond(0))
			}
			g.block(b, d+1, inLoop)
		}
		if g.r.Intn(2) == 0 {
			g.ind(b, d)
			b.WriteString("} else {\n")
			g.block(b, d+1, inLoop)
		}
		g.ind(b, d)
		b.WriteString("}\n")
	case c < 82 && d < 2:
		g.ind(b, d)
		v := fmt.Sprintf("c%d", d)
		fmt.Fprintf(b, "for %s = 0; %s < %d; %s = %s + 1 {\n", v, v, 1+g.r.Intn(3), v, v)
		g.block(b, d+1, true)
		g.ind(b, d)
		b.WriteString("}\n")
	case c < 92 && d < 2:
		g.ind(b, d)
		it := []string{"l1", "[1, 2, 3]", "m1", "{\"p\": 1, \"q\": 2}", "s1", "\"xyz\"", "l2"}[g.r.Intn(7)]
		fmt.Fprintf(b, "for e%d in %s {\n", d, it)
		g.block(b, d+1, true)
		g.ind(b, d)
		b.WriteString("}\n")
	case inLoop:
		g.ind(b, d)
		fmt.Fprintf(b, "if %s {\n", g.cond(1))
		g.ind(b, d+1)
		b.WriteString([]string{"break\n", "continue\n"}[g.r.Intn(2)])
		g.ind(b, d)
		b.WriteString("}\n")
	default:
		g.emit(b, d, g.intExpr(0))
	}
}
