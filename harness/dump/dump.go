// Package dump renders arbitrary Go values (ASTs, points, errors) as
// deterministic text for outcome comparison: pointers are followed (with a
// cycle guard), map keys sorted, unexported fields read, selected fields skipped.
package dump

import (
	"fmt"
	"reflect"
	"sort"
	"strings"
)

// Skip lists struct field names that are never dumped (caches of foreign types).
var Skip = map[string]bool{"Grok": true, "PrivateData": true}

func Value(v interface{}) string {
	var b strings.Builder
	seen := map[uintptr]bool{}
	walk(&b, reflect.ValueOf(v), seen, 0)
	return b.String()
}

func walk(b *strings.Builder, v reflect.Value, seen map[uintptr]bool, depth int) {
	if depth > 200 {
		b.WriteString("<deep>")
		return
	}
	if !v.IsValid() {
		b.WriteString("nil")
		return
	}
	switch v.Kind() {
	case reflect.Ptr:
		if v.IsNil() {
			b.WriteString("nil")
			return
		}
		p := v.Pointer()
		if seen[p] {
			b.WriteString("<cycle>")
			return
		}
		seen[p] = true
		b.WriteString("&")
		walk(b, v.Elem(), seen, depth+1)
		delete(seen, p)
	case reflect.Interface:
		if v.IsNil() {
			b.WriteString("nil")
			return
		}
		walk(b, v.Elem(), seen, depth+1)
	case reflect.Struct:
		t := v.Type()
		b.WriteString(t.Name())
		b.WriteString("{")
		for i := 0; i < v.NumField(); i++ {
			f := t.Field(i)
			if Skip[f.Name] {
				continue
			}
			b.WriteString(f.Name)
			b.WriteString(":")
			walk(b, v.Field(i), seen, depth+1)
			b.WriteString(" ")
		}
		b.WriteString("}")
	case reflect.Slice, reflect.Array:
		if v.Kind() == reflect.Slice && v.IsNil() {
			b.WriteString("[]")
			return
		}
		b.WriteString("[")
		for i := 0; i < v.Len(); i++ {
			walk(b, v.Index(i), seen, depth+1)
			b.WriteString(",")
		}
		b.WriteString("]")
	case reflect.Map:
		type kv struct {
			k string
			v reflect.Value
		}
		var items []kv
		it := v.MapRange()
		for it.Next() {
			var kb strings.Builder
			walk(&kb, it.Key(), seen, depth+1)
			items = append(items, kv{kb.String(), it.Value()})
		}
		sort.Slice(items, func(i, j int) bool { return items[i].k < items[j].k })
		b.WriteString("map[")
		for _, it := range items {
			b.WriteString(it.k)
			b.WriteString(":")
			walk(b, it.v, seen, depth+1)
			b.WriteString(" ")
		}
		b.WriteString("]")
	case reflect.String:
		fmt.Fprintf(b, "%q", v.String())
	case reflect.Bool:
		fmt.Fprintf(b, "%v", v.Bool())
	case reflect.Int, reflect.Int8, reflect.Int16, reflect.Int32, reflect.Int64:
		fmt.Fprintf(b, "%d", v.Int())
	case reflect.Uint, reflect.Uint8, reflect.Uint16, reflect.Uint32, reflect.Uint64, reflect.Uintptr:
		fmt.Fprintf(b, "%d", v.Uint())
	case reflect.Float32, reflect.Float64:
		fmt.Fprintf(b, "%v", v.Float())
	case reflect.Func, reflect.Chan, reflect.UnsafePointer:
		if v.IsNil() {
			b.WriteString("nil")
		} else {
			b.WriteString("<" + v.Kind().String() + ">")
		}
	default:
		fmt.Fprintf(b, "<%s>", v.Kind())
	}
}
