#!/bin/bash
# placeholder: replaced as the framework lands
exit 0
