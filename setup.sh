#!/bin/bash
# Build the framework from files on disk only (offline) and warm the Go build caches.
cd "$(dirname "$0")" || exit 2
. ./lib.sh
mkdir -p bin evidence replays
(cd tools/instrument && go build -o "$VERIF/bin/instrument" .) || infra "cannot build the instrumenter"
S=$(mktemp -d /var/tmp/verifsetup.XXXXXX) || infra mktemp
trap 'rm -rf "$S"' EXIT
make_scratch "$S/src"
(cd "$S/src" && go build -o "$S/verifsim" ./internal/verifsim/cmd/verifsim) || infra "harness build failed"
(cd "$S/src" && go build -race -o "$S/verifsim.race" ./internal/verifsim/cmd/verifsim) || infra "race build failed"
# warm the cache of the race build with the sync.Pool overlay the C16 check uses (paths must match: built through ./check)
VERIF_RUNS=16 ./check C16 quick >/dev/null 2>&1 || true
echo "setup ok"
