# shared by check / setup.sh: environment and the scratch-copy pipeline
export GOFLAGS=-mod=mod GOPROXY=off GOSUMDB=off GOTOOLCHAIN=local
export CGO_ENABLED=${CGO_ENABLED:-1}
VERIF=${VERIF_HOME:-$(cd "$(dirname "${BASH_SOURCE[0]}")" && pwd)}
REPO=${VERIF_REPO:-/repo}

infra() { echo "INFRA: $*" >&2; exit 2; }

# make_scratch <dir>: copy the working tree of $REPO, instrument it, add simrt + harness
make_scratch() {
  local d=$1
  mkdir -p "$d" || infra "mkdir $d"
  rsync -a --delete --exclude .git --exclude site --exclude ide --exclude docs --exclude '*.md' \
        --exclude internal/simrt --exclude internal/verifsim "$REPO"/ "$d"/ || infra "rsync"
  mkdir -p "$d/internal/simrt" "$d/internal/verifsim"
  rsync -a "${VERIF_SIMRT_DIR:-$VERIF/simrt}/" "$d/internal/simrt/" || infra "rsync simrt"       # (overrides: development only)
  rsync -a "${VERIF_HARNESS_DIR:-$VERIF/harness}/" "$d/internal/verifsim/" || infra "rsync harness"
  if [ ! -x "$VERIF/bin/instrument" ] || [ "$VERIF/tools/instrument/main.go" -nt "$VERIF/bin/instrument" ]; then
    mkdir -p "$VERIF/bin"
    (cd "$VERIF/tools/instrument" && go build -o "$VERIF/bin/instrument" .) || infra "build instrument"
  fi
  (cd "$d" && "$VERIF/bin/instrument" -dir "$d" -sites "$d/sites.json" $VERIF_INSTR_FLAGS) || infra "instrument failed"
}
