// Package simrt is the simulation runtime linked into the instrumented scratch
// copy of platypus. It owns every source of nondeterminism the claimed
// properties depend on: sync.Pool hand-out, map iteration order, the calendar
// clock, and (for multi-task runs) which task runs at every yield point.
//
// One World is active per process at a time. A run is a pure function of the
// World's configuration (chooser seed + rates, or an explicit decision list).
//
// Everything that is touched by more than one task lives in plain slices and
// words that are only accessed from //go:norace functions, so that the race
// detector sees no happens-before edge created by the simulator itself.
package simrt

import (
	"fmt"
	"os"
	"runtime"
	"sort"
	"sync"
	"sync/atomic"
	"time"
	"unsafe"
)

// ---------------------------------------------------------------------------
// PRNG: xoshiro256** seeded through splitmix64 (stable across Go versions).

type RNG struct{ s [4]uint64 }

//go:norace
func splitmix(x *uint64) uint64 {
	*x += 0x9e3779b97f4a7c15
	z := *x
	z = (z ^ (z >> 30)) * 0xbf58476d1ce4e5b9
	z = (z ^ (z >> 27)) * 0x94d049bb133111eb
	return z ^ (z >> 31)
}

// Mix derives a sub-seed from a seed and labels.
//
//go:norace
func Mix(seed uint64, labels ...uint64) uint64 {
	x := seed
	r := splitmix(&x)
	for _, l := range labels {
		x ^= l * 0x9e3779b97f4a7c15
		r ^= splitmix(&x)
	}
	return r
}

//go:norace
func NewRNG(seed uint64) *RNG {
	r := &RNG{}
	r.Seed(seed)
	return r
}

//go:norace
func (r *RNG) Seed(seed uint64) {
	x := seed
	for i := range r.s {
		r.s[i] = splitmix(&x)
	}
}

//go:norace
func rotl(x uint64, k uint) uint64 { return (x << k) | (x >> (64 - k)) }

//go:norace
func (r *RNG) Uint64() uint64 {
	s := &r.s
	res := rotl(s[1]*5, 7) * 9
	t := s[1] << 17
	s[2] ^= s[0]
	s[3] ^= s[1]
	s[1] ^= s[2]
	s[0] ^= s[3]
	s[2] ^= t
	s[3] = rotl(s[3], 45)
	return res
}

// Intn returns a value in [0,n). n<=0 gives 0.
//
//go:norace
func (r *RNG) Intn(n int) int {
	if n <= 1 {
		return 0
	}
	return int(r.Uint64() % uint64(n))
}

//go:norace
func (r *RNG) Float() float64 { return float64(r.Uint64()>>11) / float64(1<<53) }

//go:norace
func (r *RNG) Chance(p float64) bool { return p > 0 && r.Float() < p }

// ---------------------------------------------------------------------------
// Decisions

// Kinds of decisions. The per-kind occurrence counter ("nth") is kept per
// (kind, key) where key is a pool index or a map-range site.
const (
	KSched   = 0 // which runnable task continues at a yield point; 0 = current
	KPoolGet = 1 // 0 = fresh object, j>0 = recycle idle[j-1]
	KPurge   = 2 // 1 = purge the pool before this Get
	KMapOrd  = 3 // permutation index of the key order; 0 = canonical
	KUser    = 4 // harness-defined (fault carriers, signal instants ...)
	KStall   = 5 // at a synchronisation point: c>0 = the task stalls until the other tasks have passed c synchronisation points
	nKinds   = 6
)

var kindNames = [nKinds]string{"sched", "pool_get", "purge", "map_order", "user", "stall"}

// MaxStall is the longest stall, in synchronisation points passed by the other tasks.
const MaxStall = 24

func KindName(k int) string { return kindNames[k] }

// Decision is one non-default choice. Absent decisions mean the benign
// default (choice 0).
type Decision struct {
	Kind   int    `json:"kind"`
	Key    int    `json:"key"` // pool index / site id / user key
	Nth    int    `json:"nth"` // occurrence index of (kind,key) within the run
	Choice uint64 `json:"choice"`
}

// Rates configures random (generating) mode.
type Rates struct {
	Switch  float64 `json:"switch"`  // probability of passing the turn at a yield point
	Recycle float64 `json:"recycle"` // probability that a Get recycles when idle objects exist
	Purge   float64 `json:"purge"`   // probability that a Get is preceded by a purge
	Shuffle float64 `json:"shuffle"` // probability that a map range uses a non-canonical order
	Stall   float64 `json:"stall,omitempty"` // probability that a task stalls at a synchronisation point (atomic operation, pool Get/Put, lock)
}

const maxKeys = 4096 // per-kind key space (sites, pools, user keys)

// World is the state of one simulated run.
type World struct {
	// configuration
	Explicit  bool // replay mode: use Decisions, default otherwise
	Rates     Rates
	Budget    uint64 // max events; 0 = unlimited
	Pristine  bool   // pools always hand out fresh objects and drop Puts
	BaseTime  time.Time
	Record    bool // record non-default decisions (generating mode)
	TraceFull bool // keep the full event log

	rng       RNG
	decisions []Decision      // explicit mode input
	decIdx    [nKinds][]int32 // per kind: key -> index+1 of first decision in sorted order (explicit mode lookup helper)
	nth       [nKinds][]int32

	recorded []Decision

	// measured
	Events    uint64
	Digest    uint64
	Blown     bool // budget exceeded (sticky)
	Deadlocked bool // the tasks of the code under test deadlocked on intercepted synchronisation
	clockOff  time.Duration
	Fired     [nKinds]uint64 // non-default decisions actually taken
	Asked     [nKinds]uint64
	SwitchLog []int32 // sequence of task ids that received the turn (bounded)
	trace     []Event

	// scheduler
	tasks   []taskState
	turn    int32
	nlive   int32
	multi   bool
	curTask int32
	// syncCount counts the synchronisation points passed by all tasks: the time axis of stalls
	syncCount uint64
}

type Event struct {
	Seq  uint64
	Task int32
	Kind int32 // 'S' step, 'G' get, 'P' put, 'M' map, 'C' clock, 'U' user, 'X' switch
	A, B uint64
}

type taskState struct {
	done    bool
	started bool
	panicV  interface{}
	stack   []byte
	// blockedOn is the intercepted synchronisation object (simrt.Mutex, ...) this task waits for; nil = runnable
	blockedOn unsafe.Pointer
	// stallUntil != 0: the task is stalled (a slow thread: preempted for long) until syncCount reaches it
	stallUntil uint64
}

var world *World

// Active returns the active world or nil.
//
//go:norace
func Active() *World { return world }

// Begin installs a fresh world. Pools are emptied.
func Begin(w *World, seed uint64, explicit []Decision) {
	w.rng.Seed(seed)
	w.Explicit = explicit != nil
	w.decisions = append([]Decision(nil), explicit...)
	sort.SliceStable(w.decisions, func(i, j int) bool {
		a, b := w.decisions[i], w.decisions[j]
		if a.Kind != b.Kind {
			return a.Kind < b.Kind
		}
		if a.Key != b.Key {
			return a.Key < b.Key
		}
		return a.Nth < b.Nth
	})
	for k := 0; k < nKinds; k++ {
		w.nth[k] = make([]int32, maxKeys)
	}
	w.recorded = make([]Decision, 0, 1024)
	w.SwitchLog = make([]int32, 0, 4096)
	if w.TraceFull {
		w.trace = make([]Event, 0, 1<<20)
	}
	w.Digest = 1469598103934665603
	w.turn = 0
	w.curTask = 0
	if w.BaseTime.IsZero() {
		w.BaseTime = time.Date(2024, 3, 5, 12, 30, 45, 0, time.UTC)
	}
	PurgeAll()
	world = w
}

// End deactivates the world and returns the recorded decisions.
func End() []Decision {
	w := world
	world = nil
	if w == nil {
		return nil
	}
	if w.TraceFull {
		if path := os.Getenv("VERIF_TRACE_OUT"); path != "" {
			if f, err := os.OpenFile(path, os.O_APPEND|os.O_CREATE|os.O_WRONLY, 0o644); err == nil {
				fmt.Fprintf(f, "# world events=%d digest=%016x\n", w.Events, w.Digest)
				for _, e := range w.trace {
					fmt.Fprintf(f, "%d t%d %c %d %d\n", e.Seq, e.Task, rune(e.Kind), e.A, e.B)
				}
				f.Close()
			}
		}
	}
	return w.recorded
}

// Trace returns the full event log (TraceFull only).
func (w *World) Trace() []Event { return w.trace }

//go:norace
func (w *World) event(kind int32, a, b uint64) {
	w.Events++
	d := w.Digest
	d = (d ^ uint64(kind)) * 1099511628211
	d = (d ^ uint64(w.curTask)) * 1099511628211
	d = (d ^ a) * 1099511628211
	d = (d ^ b) * 1099511628211
	w.Digest = d
	if w.TraceFull && len(w.trace) < cap(w.trace) {
		w.trace = w.trace[:len(w.trace)+1]
		w.trace[len(w.trace)-1] = Event{Seq: w.Events, Task: w.curTask, Kind: kind, A: a, B: b}
	}
}

// choose returns a value in [0,n) for decision (kind,key). def is what random
// mode does: it is given the rng and returns the choice.
//
//go:norace
func (w *World) choose(kind, key int, n uint64, random func(w *World, n uint64) uint64) uint64 {
	if n <= 1 {
		return 0
	}
	if key < 0 || key >= maxKeys {
		key = maxKeys - 1
	}
	nth := int(w.nth[kind][key])
	w.nth[kind][key]++
	w.Asked[kind]++
	var c uint64
	if w.Explicit {
		c = w.lookup(kind, key, nth)
		if c >= n {
			c = c % n
		}
	} else {
		c = random(w, n)
	}
	if c != 0 {
		w.Fired[kind]++
		if w.Record && len(w.recorded) < cap(w.recorded) {
			w.recorded = w.recorded[:len(w.recorded)+1]
			w.recorded[len(w.recorded)-1] = Decision{Kind: kind, Key: key, Nth: nth, Choice: c}
		} else if w.Record {
			w.recordedOverflow()
		}
	}
	return c
}

//go:norace
func (w *World) recordedOverflow() {
	// grow manually without copy()/append (both carry race hooks in the runtime)
	n := make([]Decision, len(w.recorded), 2*cap(w.recorded)+1)
	for i := range w.recorded {
		n[i] = w.recorded[i]
	}
	w.recorded = n
}

//go:norace
func (w *World) lookup(kind, key, nth int) uint64 {
	// binary search in the sorted explicit list
	lo, hi := 0, len(w.decisions)
	for lo < hi {
		mid := (lo + hi) / 2
		d := &w.decisions[mid]
		less := false
		if d.Kind != kind {
			less = d.Kind < kind
		} else if d.Key != key {
			less = d.Key < key
		} else {
			less = d.Nth < nth
		}
		if less {
			lo = mid + 1
		} else {
			hi = mid
		}
	}
	if lo < len(w.decisions) {
		d := &w.decisions[lo]
		if d.Kind == kind && d.Key == key && d.Nth == nth {
			return d.Choice
		}
	}
	return 0
}

// Choose is the harness-facing decision point (fault carriers etc.).
// In generating mode, p is the probability of a non-default choice.
//
//go:norace
func Choose(key int, n int, p float64) int {
	w := world
	if w == nil {
		return 0
	}
	userP = p
	c := w.choose(KUser, key, uint64(n), randUser)
	w.event('U', uint64(key), c)
	return int(c)
}

var userP float64

//go:norace
func randUser(w *World, n uint64) uint64 {
	if !w.rng.Chance(userP) {
		return 0
	}
	return 1 + w.rng.Uint64()%(n-1)
}

// ---------------------------------------------------------------------------
// Step: yield point, event counter, budget.

type budgetPanic struct{}

func (budgetPanic) Error() string { return "simrt: step budget exceeded" }

// ErrBudget is the (sticky) panic value raised by Step once the budget is gone.
var ErrBudget error = budgetPanic{}

// Step is inserted at every function entry and loop body of the code under test.
//
//go:norace
func Step(site int) {
	w := world
	if w == nil {
		return
	}
	w.event('S', uint64(site), 0)
	if w.Budget != 0 && w.Events > w.Budget {
		w.Blown = true
		panic(ErrBudget)
	}
	if w.multi {
		w.yield()
	}
}

// SetBudget gives the running world n more events from now and clears the
// blown flag (a new operation of the same plan starts).
func SetBudget(n uint64) {
	if w := world; w != nil {
		if n == 0 {
			w.Budget = 0
		} else {
			w.Budget = w.Events + n
		}
		w.Blown = false
	}
}

// Blown reports whether the budget was exceeded since the last SetBudget.
func Blown() bool {
	if w := world; w != nil {
		return w.Blown
	}
	return false
}

// EventSeq returns the global event sequence number (the simulated time axis).
//
//go:norace
func EventSeq() uint64 {
	if w := world; w != nil {
		return w.Events
	}
	return 0
}

// Note records a harness event (signal poll, probe call ...) on the time axis.
//
//go:norace
func Note(a, b uint64) {
	if w := world; w != nil {
		w.event('U', a, b)
	}
}

// ---------------------------------------------------------------------------
// Clock

//go:norace
func Now() time.Time {
	w := world
	if w == nil {
		if !envClock.IsZero() {
			return envClock
		}
		return time.Now()
	}
	w.event('C', uint64(w.clockOff), 0)
	return w.BaseTime.Add(w.clockOff)
}

// envClock pins the clock of a process without a world (the CLI child).
var envClock time.Time

func SetProcessClock(t time.Time) { envClock = t }

// A process without a world (the CLI child of the C20 harness) reads its wall
// clock from VERIF_SIM_CLOCK (unix nanoseconds) when that is set.
func init() {
	if v := os.Getenv("VERIF_SIM_CLOCK"); v != "" {
		var n int64
		if _, err := fmt.Sscan(v, &n); err == nil {
			envClock = time.Unix(0, n)
		}
	}
}

// SetNow pins the simulated clock to t.
func SetNow(t time.Time) {
	if w := world; w != nil {
		w.clockOff = t.Sub(w.BaseTime)
	}
}

// ClockJump moves the simulated clock.
func ClockJump(d time.Duration) {
	if w := world; w != nil {
		w.clockOff += d
	}
}

// ---------------------------------------------------------------------------
// Map order

type Entry[M ~map[K]V, K comparable, V any] struct {
	K K
	M M
}

// Iter returns the keys of m in the order the simulator chose.
func Iter[M ~map[K]V, K comparable, V any](site int, m M) []Entry[M, K, V] {
	keys := make([]K, 0, len(m))
	for k := range m {
		keys = append(keys, k)
	}
	sortKeys(keys)
	if w := Active(); w != nil && len(keys) > 1 {
		idx := w.mapOrder(site, len(keys))
		permute(keys, idx)
	}
	out := make([]Entry[M, K, V], len(keys))
	for i, k := range keys {
		out[i] = Entry[M, K, V]{K: k, M: m}
	}
	return out
}

func sortKeys[K comparable](keys []K) {
	if ks, ok := any(keys).([]string); ok {
		sort.Strings(ks)
		return
	}
	sort.SliceStable(keys, func(i, j int) bool {
		return fmt.Sprint(keys[i]) < fmt.Sprint(keys[j])
	})
}

var factorials = [...]uint64{1, 1, 2, 6, 24, 120, 720, 5040, 40320}

//go:norace
func (w *World) mapOrder(site, n int) uint64 {
	var space uint64
	if n < len(factorials) {
		space = factorials[n]
	} else {
		space = 1 << 40
	}
	c := w.choose(KMapOrd, site, space, randMapOrder)
	w.event('M', uint64(site), c)
	return c
}

//go:norace
func randMapOrder(w *World, n uint64) uint64 {
	if !w.rng.Chance(w.Rates.Shuffle) {
		return 0
	}
	return w.rng.Uint64() % n
}

// permute applies permutation number idx (factorial number system for
// len<=8, seeded Fisher-Yates above) to keys; idx 0 is the identity.
func permute[K any](keys []K, idx uint64) {
	n := len(keys)
	if idx == 0 {
		return
	}
	if n < len(factorials) {
		// Lehmer code
		src := append([]K(nil), keys...)
		for i := 0; i < n; i++ {
			f := factorials[n-1-i]
			j := int(idx / f)
			idx %= f
			keys[i] = src[j]
			src = append(src[:j], src[j+1:]...)
		}
		return
	}
	r := NewRNG(idx)
	for i := n - 1; i > 0; i-- {
		j := r.Intn(i + 1)
		keys[i], keys[j] = keys[j], keys[i]
	}
}

// PermIndex returns the Lehmer index that maps sorted order onto the given
// order (len(order) <= 8); used by harnesses that want a specific order.
func PermIndex(sorted, order []string) uint64 {
	src := append([]string(nil), sorted...)
	var idx uint64
	n := len(order)
	for i := 0; i < n; i++ {
		j := 0
		for j < len(src) && src[j] != order[i] {
			j++
		}
		idx += uint64(j) * factorials[n-1-i]
		src = append(src[:j], src[j+1:]...)
	}
	return idx
}

// ---------------------------------------------------------------------------
// Pools

// Pool replaces sync.Pool in the instrumented copy.
type Pool struct {
	PoolName string
	New      func() any

	idx  int32 // registration index+1
	idle []poolEntry
	// statistics
	Gets, Puts, Fresh, Recycled, Purged uint64
}

type poolEntry struct {
	obj  any
	word *int32 // release/acquire word: reproduces the happens-before edge sync.Pool gives per object
}

var pools []*Pool

//go:norace
func (p *Pool) register() {
	if p.idx != 0 {
		return
	}
	n := make([]*Pool, len(pools)+1)
	for i := range pools {
		n[i] = pools[i]
	}
	n[len(pools)] = p
	pools = n
	p.idx = int32(len(pools))
	p.idle = make([]poolEntry, 0, 64)
}

// Pools lists the registered pools.
func Pools() []*Pool { return pools }

// Idle returns the number of idle objects.
//
//go:norace
func (p *Pool) Idle() int { return len(p.idle) }

//go:norace
func (p *Pool) Get() any {
	if w := world; w != nil && w.multi {
		Sync(-1) // a pool operation is a synchronisation point of the original code
	}
	p.register()
	w := world
	p.Gets++
	if w == nil || w.Pristine {
		p.Fresh++
		if w != nil {
			w.event('G', uint64(p.idx), 0)
		}
		return p.newObj()
	}
	if len(p.idle) > 0 {
		if w.choose(KPurge, int(p.idx), 2, randPurge) == 1 {
			p.Purged += uint64(len(p.idle))
			p.purge()
		}
	}
	c := w.choose(KPoolGet, int(p.idx), uint64(len(p.idle)+1), randPoolGet)
	w.event('G', uint64(p.idx), c)
	if c == 0 {
		p.Fresh++
		return p.newObj()
	}
	p.Recycled++
	j := int(c - 1)
	e := p.idle[j]
	for i := j; i < len(p.idle)-1; i++ {
		p.idle[i] = p.idle[i+1]
	}
	p.idle[len(p.idle)-1] = poolEntry{}
	p.idle = p.idle[:len(p.idle)-1]
	atomic.LoadInt32(e.word) // acquire
	return e.obj
}

func (p *Pool) newObj() any {
	if p.New == nil {
		return nil
	}
	return p.New()
}

//go:norace
func randPurge(w *World, n uint64) uint64 {
	if w.rng.Chance(w.Rates.Purge) {
		return 1
	}
	return 0
}

//go:norace
func randPoolGet(w *World, n uint64) uint64 {
	if !w.rng.Chance(w.Rates.Recycle) {
		return 0
	}
	// bias towards the most recently returned object (what sync.Pool usually
	// does) but reach every idle object
	if w.rng.Chance(0.5) {
		return n - 1
	}
	return 1 + w.rng.Uint64()%(n-1)
}

//go:norace
func (p *Pool) Put(x any) {
	if w := world; w != nil && w.multi {
		Sync(-1)
	}
	p.register()
	if x == nil {
		return
	}
	p.Puts++
	w := world
	if w == nil || w.Pristine {
		if w != nil {
			w.event('P', uint64(p.idx), 0)
		}
		return
	}
	w.event('P', uint64(p.idx), uint64(len(p.idle)))
	word := new(int32)
	atomic.StoreInt32(word, 1) // release
	if len(p.idle) == cap(p.idle) {
		n := make([]poolEntry, len(p.idle), 2*cap(p.idle)+1)
		for i := range p.idle {
			n[i] = p.idle[i]
		}
		p.idle = n
	}
	p.idle = p.idle[:len(p.idle)+1]
	p.idle[len(p.idle)-1] = poolEntry{obj: x, word: word}
}

//go:norace
func (p *Pool) purge() {
	for i := range p.idle {
		p.idle[i] = poolEntry{}
	}
	p.idle = p.idle[:0]
}

// PurgeAll empties every pool (what a GC cycle may do).
//
//go:norace
func PurgeAll() {
	for _, p := range pools {
		p.purge()
	}
}

// IdleObjects exposes the idle list of a pool to harness probes (read only).
func (p *Pool) IdleObjects() []any {
	out := make([]any, len(p.idle))
	for i, e := range p.idle {
		out[i] = e.obj
	}
	return out
}

// PoolByName finds a registered pool.
func PoolByName(name string) *Pool {
	for _, p := range pools {
		if p.PoolName == name {
			return p
		}
	}
	return nil
}

// ---------------------------------------------------------------------------
// Scheduler: tasks are real goroutines, exactly one holds the turn.

//go:norace
func (w *World) yield() {
	me := w.curTask
	// candidates: runnable (started, not done) tasks other than me
	n := 0
	for i := range w.tasks {
		if int32(i) != me && !w.tasks[i].done && w.tasks[i].blockedOn == nil && w.tasks[i].stallUntil == 0 {
			n++
		}
	}
	if n == 0 {
		return
	}
	c := w.choose(KSched, 0, uint64(n+1), randSched)
	if c == 0 {
		return
	}
	k := int(c)
	for i := range w.tasks {
		if int32(i) != me && !w.tasks[i].done && w.tasks[i].blockedOn == nil && w.tasks[i].stallUntil == 0 {
			k--
			if k == 0 {
				w.passTurn(int32(i))
				w.waitTurn(me)
				return
			}
		}
	}
}

//go:norace
func randSched(w *World, n uint64) uint64 {
	if !w.rng.Chance(w.Rates.Switch) {
		return 0
	}
	return 1 + w.rng.Uint64()%(n-1)
}

//go:norace
func (w *World) passTurn(to int32) {
	w.event('X', uint64(to), 0)
	if len(w.SwitchLog) < cap(w.SwitchLog) {
		w.SwitchLog = w.SwitchLog[:len(w.SwitchLog)+1]
		w.SwitchLog[len(w.SwitchLog)-1] = to
	}
	w.curTask = to
	w.turn = to
}

// waitTurn parks the caller until it holds the turn. Backstop: if the simulated clock (event
// counter) does not advance for a long wall-clock time, the turn holder is blocked on something
// the simulator does not intercept (a channel, a WaitGroup, real I/O): the process exits with
// status 3 instead of hanging.
//
//go:norace
func (w *World) waitTurn(me int32) {
	spins := 0
	var lastEvents uint64
	var since time.Time
	for w.turn != me {
		runtime.Gosched()
		spins++
		if spins&0xfffff == 0 {
			if w.Events != lastEvents || since.IsZero() {
				lastEvents, since = w.Events, time.Now()
			} else if time.Since(since) > 60*time.Second {
				os.Stderr.WriteString("simrt: scheduler stalled: the task holding the turn blocks on synchronisation the simulator does not intercept\n")
				os.Exit(3)
			}
		}
	}
}

// RunTasks runs the given functions as tasks 1..n under the simulated
// scheduler and returns when all are done. The caller is task 0 and does not
// run concurrently with them. A panic in a task is recovered and returned.
// Must be called with GOMAXPROCS(1) for speed (correctness does not depend on it).
func RunTasks(fns []func()) []TaskResult {
	w := world
	n := len(fns)
	w.tasks = make([]taskState, n+1)
	w.tasks[0].done = true // the harness task never competes
	w.multi = true
	// The WaitGroup orders every task's end before the harness continues (the
	// harness reads what tasks wrote). It creates no edge between two tasks'
	// bodies: Done is the last thing a task does.
	var wg sync.WaitGroup
	wg.Add(n)
	for i := 0; i < n; i++ {
		id := int32(i + 1)
		f := fns[i]
		go taskMain(w, id, f, &wg)
	}
	// hand the turn to a first task chosen by the scheduler
	runHarnessWait(w)
	wg.Wait()
	w.multi = false
	res := make([]TaskResult, n)
	for i := 0; i < n; i++ {
		res[i] = TaskResult{Panic: w.tasks[i+1].panicV, Stack: w.tasks[i+1].stack}
	}
	w.curTask = 0
	w.turn = 0
	return res
}

type TaskResult struct {
	Panic interface{}
	Stack []byte
}

//go:norace
func runHarnessWait(w *World) {
	// choose the first task
	n := len(w.tasks) - 1
	first := int32(1)
	if n > 1 {
		c := w.choose(KSched, 1, uint64(n), randFirst)
		first = int32(c) + 1
	}
	w.passTurn(first)
	w.waitTurn(0)
}

//go:norace
func randFirst(w *World, n uint64) uint64 { return w.rng.Uint64() % n }

func taskMain(w *World, id int32, f func(), wg *sync.WaitGroup) {
	defer wg.Done()
	taskWait(w, id)
	defer taskExit(w, id)
	f()
}

//go:norace
func taskWait(w *World, id int32) { w.waitTurn(id) }

func taskExit(w *World, id int32) {
	if r := recover(); r != nil {
		buf := make([]byte, 16384)
		buf = buf[:runtime.Stack(buf, false)]
		taskSetPanic(w, id, r, buf)
	}
	taskDone(w, id)
}

//go:norace
func taskSetPanic(w *World, id int32, r interface{}, st []byte) {
	w.tasks[id].panicV = r
	w.tasks[id].stack = st
}

//go:norace
func taskDone(w *World, id int32) {
	w.tasks[id].done = true
	// pass the turn to a remaining task (scheduler's choice) or back to the harness
	w.passToRunnable()
}

// passToRunnable hands the turn to a runnable (not done, not blocked) task chosen by the
// scheduler, or back to the harness when every task is done. If tasks remain but all of them
// wait on intercepted synchronisation objects, the code under test has deadlocked: the world
// is marked and the blocked tasks are released with a panic.
//
//go:norace
func (w *World) passToRunnable() {
	n, live, stalled := 0, 0, 0
	for i := 1; i < len(w.tasks); i++ {
		if !w.tasks[i].done {
			live++
			if w.tasks[i].blockedOn == nil {
				if w.tasks[i].stallUntil != 0 {
					stalled++
				} else {
					n++
				}
			}
		}
	}
	if live == 0 {
		w.passTurn(0)
		return
	}
	if n == 0 && stalled > 0 {
		// nobody else can run: the stalls end early
		for i := 1; i < len(w.tasks); i++ {
			if !w.tasks[i].done && w.tasks[i].blockedOn == nil {
				w.tasks[i].stallUntil = 0
			}
		}
		n = stalled
	}
	if n == 0 {
		w.Deadlocked = true
		for i := 1; i < len(w.tasks); i++ {
			if !w.tasks[i].done {
				w.tasks[i].blockedOn = nil // they wake up, see Deadlocked and panic
				w.tasks[i].stallUntil = 0
			}
		}
		n = live
	}
	c := uint64(0)
	if n > 1 {
		c = w.choose(KSched, 2, uint64(n), randFirst)
	}
	k := int(c)
	for i := 1; i < len(w.tasks); i++ {
		if !w.tasks[i].done && w.tasks[i].blockedOn == nil && w.tasks[i].stallUntil == 0 {
			if k == 0 {
				w.passTurn(int32(i))
				return
			}
			k--
		}
	}
}

// Sync marks a synchronisation point of the code under test: inserted before every statement that
// performs a sync/atomic operation (rewrite R7) and called by the simulated pools and locks. Under
// the scheduler it is a yield point like Step and, in addition, the place where the "stalled task"
// fault strikes: the running task may be frozen - as a thread preempted for long is - until the
// other tasks have passed a chosen number of synchronisation points; it then resumes at once, in
// front of the other task's next synchronisation operation. Lock-free algorithms fail in exactly
// these windows (a compare-and-swap that succeeds on a recycled value).
//
//go:norace
func Sync(site int) {
	w := world
	if w == nil {
		return
	}
	w.event('Y', uint64(int64(site)), 0)
	if w.Budget != 0 && w.Events > w.Budget {
		w.Blown = true
		panic(ErrBudget)
	}
	if !w.multi {
		return
	}
	w.syncCount++
	me := w.curTask
	others := 0
	for i := 1; i < len(w.tasks); i++ {
		t := &w.tasks[i]
		if int32(i) == me || t.done || t.blockedOn != nil {
			continue
		}
		if t.stallUntil != 0 {
			if t.stallUntil <= w.syncCount {
				// its stall is over: it continues now, before this task's operation
				t.stallUntil = 0
				w.passTurn(int32(i))
				w.waitTurn(me)
				return
			}
			continue
		}
		others++
	}
	if others > 0 {
		if c := w.choose(KStall, 0, MaxStall+1, randStall); c > 0 {
			w.tasks[me].stallUntil = w.syncCount + c
			w.passToRunnable()
			w.waitTurn(me)
			return
		}
	}
	w.yield()
}

//go:norace
func randStall(w *World, n uint64) uint64 {
	if !w.rng.Chance(w.Rates.Stall) {
		return 0
	}
	return 1 + w.rng.Uint64()%(n-1)
}

// block parks the running task until obj is released (intercepted synchronisation).
//
//go:norace
func (w *World) block(obj unsafe.Pointer) {
	me := w.curTask
	w.event('B', uint64(me), 0)
	w.tasks[me].blockedOn = obj
	w.passToRunnable()
	w.waitTurn(me)
	if w.Deadlocked {
		panic(ErrDeadlock)
	}
}

// wake marks every task waiting for obj runnable again (they re-check when they get the turn).
//
//go:norace
func (w *World) wake(obj unsafe.Pointer) {
	for i := 1; i < len(w.tasks); i++ {
		if w.tasks[i].blockedOn == obj {
			w.tasks[i].blockedOn = nil
		}
	}
}

type deadlockPanic struct{}

func (deadlockPanic) Error() string {
	return "simrt: all remaining tasks wait on mutexes/once held by each other (deadlock in the code under test)"
}

// ErrDeadlock is the panic value delivered to tasks when the code under test deadlocks.
var ErrDeadlock error = deadlockPanic{}

// CurTask returns the id of the running task (0 = harness).
//
//go:norace
func CurTask() int {
	if w := world; w != nil {
		return int(w.curTask)
	}
	return 0
}


// ---------------------------------------------------------------------------
// Intercepted synchronisation: sync.Mutex, sync.RWMutex and sync.Once of the code under test are
// replaced by these (rewrite R6). While tasks run under the simulated scheduler a task that would
// block parks and passes the turn; the real primitive underneath is only ever taken uncontended and
// provides the happens-before edges the original would (so the race detector sees them).

type Mutex struct {
	mu   sync.Mutex
	held bool
}

//go:norace
func (m *Mutex) isHeld() bool { return m.held }

//go:norace
func (m *Mutex) setHeld(v bool) { m.held = v }

func (m *Mutex) Lock() {
	if w := Active(); w != nil && multi(w) {
		Sync(-2)
		for m.isHeld() {
			w.block(unsafe.Pointer(m))
		}
		m.setHeld(true)
	}
	m.mu.Lock()
}

func (m *Mutex) TryLock() bool {
	if w := Active(); w != nil && multi(w) {
		if m.isHeld() {
			return false
		}
		m.setHeld(true)
		m.mu.Lock()
		return true
	}
	return m.mu.TryLock()
}

func (m *Mutex) Unlock() {
	m.mu.Unlock()
	if w := Active(); w != nil && multi(w) {
		m.setHeld(false)
		w.wake(unsafe.Pointer(m))
	}
}

//go:norace
func multi(w *World) bool { return w.multi }

type RWMutex struct {
	mu      sync.RWMutex
	writer  bool
	readers int
}

//go:norace
func (m *RWMutex) state() (bool, int) { return m.writer, m.readers }

//go:norace
func (m *RWMutex) set(writer bool, dr int) { m.writer = writer; m.readers += dr }

func (m *RWMutex) Lock() {
	if w := Active(); w != nil && multi(w) {
		Sync(-2)
		for {
			wr, rd := m.state()
			if !wr && rd == 0 {
				break
			}
			w.block(unsafe.Pointer(m))
		}
		m.set(true, 0)
	}
	m.mu.Lock()
}

func (m *RWMutex) Unlock() {
	m.mu.Unlock()
	if w := Active(); w != nil && multi(w) {
		m.set(false, 0)
		w.wake(unsafe.Pointer(m))
	}
}

func (m *RWMutex) RLock() {
	if w := Active(); w != nil && multi(w) {
		Sync(-2)
		for {
			wr, _ := m.state()
			if !wr {
				break
			}
			w.block(unsafe.Pointer(m))
		}
		m.set(false, 1)
	}
	m.mu.RLock()
}

func (m *RWMutex) RUnlock() {
	m.mu.RUnlock()
	if w := Active(); w != nil && multi(w) {
		m.set(false, -1)
		w.wake(unsafe.Pointer(m))
	}
}

func (m *RWMutex) RLocker() sync.Locker { return rlocker{m} }

type rlocker struct{ m *RWMutex }

func (r rlocker) Lock()   { r.m.RLock() }
func (r rlocker) Unlock() { r.m.RUnlock() }

// Once replaces sync.Once.
type Once struct {
	mu      Mutex
	done    uint32
	running bool
}

func (o *Once) Do(f func()) {
	if atomic.LoadUint32(&o.done) == 1 {
		return
	}
	o.mu.Lock()
	defer o.mu.Unlock()
	if o.done == 0 {
		defer atomic.StoreUint32(&o.done, 1)
		f()
	}
}
