#!/usr/bin/env python3
"""Regenerates /verif/MANIFEST.json. DONE lists the properties whose checks are registered."""
import json, sys
DONE = ["C09", "C10", "C13", "C14", "C15", "C16", "C20"]

NA = {
"C01":"crash-freedom over all programs x points is a pure function of (script text, point); no schedule, clock, fault instant or history for a simulator to own - deciding it is input generation (fuzzing), a different technique",
"C02":"operator semantics: pure expression evaluation table; nothing scheduled, timed, shared or faulted",
"C03":"control flow and scoping: pure interpreter semantics of one single-threaded run; its only nondeterminism (for-in over a map) is declared unspecified by the property itself",
"C04":"list/map/index/slice exactness and aliasing: pure value semantics inside one run",
"C05":"parser totality: pure function of the byte string; the pooled-parser reuse aspect is decided under C15",
"C06":"precedence and layout insensitivity: pure parsing of text",
"C07":"literal denotation: pure lexing/unquoting of text",
"C08":"load-time check completeness: pure traversal of one tree against a function table",
"C11":"documented effect of field builtins: pure function of (script, variables, point); no schedule or fault",
"C12":"extraction builtins: pure plumbing around deterministic engines; the zone/clock corner is pinned as environment in C15/C20 runs, the property itself has nothing to simulate",
"C17":"positions and error-chain rendering: pure functions of source text and positions (use() call-site chains are exercised under C09/C13, not claimed here)",
"C18":"v2 semantics / stale register: state carried between expressions inside one deterministic run; pure function of the program",
"C19":"v2 argument binding: pure function of (signature, call shape)",
}
PENDING = "claimed in DESIGN.md; its check is not registered yet in this commit"

CHECKS = {
"C09": dict(design="DESIGN.md §4 C09",
  technique="deterministic simulation: simulator-chosen map iteration order of the loader (schedule) over generated script sets, graph reference model + call-site-chain oracle, seeded search with plan shrinking and replay",
  text="Seeded exploration of script-set configurations x loader visiting orders chosen by the simulator (map-order seam installed by the instrumenter); verdicts compared with a graph reference model, across orders, bindings by pointer identity, error chains for validity. Sampling, not proof; sets of <=3 scripts happen to be covered for all orders.",
  note="trusts the instrumenter's map-range rewrite (semantics-preserving; repo suite passes on the instrumented copy), the reference model of 'acyclic and fully resolvable', and that generated scripts are valid/unparsable/check-failing as labelled"),
"C10": dict(design="DESIGN.md §4 C10",
  technique="deterministic simulation: seeded interleaving of several points' operation histories on the shared simulated meta/point pools, fault injection (conversion errors, cancellation, pool purge), invariants after every step, plan shrinking and replay",
  text="Seeded exploration of operation histories on 1-4 points whose index entries are recycled through simulator-controlled pools and interleaved at yield points; index/tags/fields invariants and read-back checked after every operation and compared with the solo fresh-pool run.",
  note="assumes initial points a host may pass (supported field types, no key both tag and field); trusts the pool model (any idle object or a fresh one) and the invariant formulation"),
"C13": dict(design="DESIGN.md §4 C13",
  technique="deterministic simulation with fault injection: run-time error / exit() / cancellation injected at a simulator-chosen dynamic step of a nested use() call tree; executable reference model of the workload language; shrinking and replay",
  text="Seeded exploration of call trees (depth<=3) with faults (error, exit, signal) injected at the k-th probe call of the whole tree; observation trace, final point, error chain compared with an executable model.",
  note="trusts the model of the small workload language and the generator's knowledge of statement positions"),
"C14": dict(design="DESIGN.md §4 C14",
  technique="deterministic simulation with fault injection: host cancellation signal turned true at a simulator-chosen event or poll index of the run, both interpreters; prefix/promptness/bounded-liveness oracles against the uninterrupted run; shrinking and replay",
  text="Seeded exploration of loop-bearing programs (terminating and not) x signal instants (event just after every poll, mid-statement events, k-th poll) on v1 and v2; each interrupted run is compared with the uninterrupted run: returns nil, effect prefix, nothing after the observing poll, at most one effect after the instant, returns within 5000 simulated events. Sampling of programs; per program the instants cover every poll for short runs.",
  note="trusts the step-budget mechanism (yield points at every function entry and loop body) as the clock of bounded liveness; generated conditions are effect-free and each simple statement has at most one effect"),
"C15": dict(design="DESIGN.md §4 C15",
  technique="deterministic simulation: histories of load/parse/run/cancel/purge/clock operations with every sync.Pool hand-out decided by the simulator (fresh, any idle dirty object, purge); each operation compared with the same operation in pristine state; shrinking and replay",
  text="Seeded exploration of operation histories (<=30 ops) over generated scripts and points with simulator-controlled pool recycling, failing/cancelled/panicking predecessors and clock changes; every operation's outcome equals its pristine-state outcome; package-level tables fingerprinted after every step.",
  note="pristine = simulated pools emptied + script re-loaded from text in the same process (thorough: fresh child process for a sample); trusts the pool model of sync.Pool's contract"),
"C16": dict(design="DESIGN.md §4 C16",
  technique="deterministic simulation: seeded scheduler decides which caller goroutine runs at every yield point (turn passing invisible to the race detector), Go race detector as oracle plus result equality with the solo run; replayable schedules, shrinking",
  text="Seeded exploration of schedules of 2-16 tasks parsing and running shared loaded scripts (grok/add_pattern/use/...) under -race; the scheduler creates no happens-before edge, so conflicting accesses are reported from a deterministic schedule; every task's result equals its solo result.",
  note="yield points exist only in platypus code; third-party calls run atomically in the schedule (races into them are still seen by the detector). Trusts the Go race detector and the per-object release/acquire model of sync.Pool"),
"C20": dict(design="DESIGN.md §4 C20",
  technique="deterministic simulation (thin): CLI process run against a simulated wall clock and generated workspace/input files incl. file faults; stdout compared with the library API result under the same instant; shrinking and replay",
  text="Seeded exploration of workspaces/scripts/inputs/output formats with the CLI's clock pinned by the simulator and file-system faults (missing input, directory for file, dangling symlink, empty input, broken scripts); printed point equals the library result. Thin fit: no concurrency or retries exist in the CLI.",
  note="permission errors and short reads are not injectable (root sandbox, os.ReadFile has no seam); zap's own timestamps are outside the compared text"),
}

def main():
    m = {
     "version":1,
     "setup_cmd":"./setup.sh",
     "hooks":{"guard":"none: no hook is added to /repo; seams (sync.Pool, map range order, time.Now, yield points) are installed by /verif/tools/instrument on a scratch copy of the working tree at check time",
              "enable":"./check <id> <tier>: rsync /repo working tree -> scratch dir, /verif/bin/instrument rewrites it, harness built inside the copy (go build, -race for C16)",
              "baseline_off_cmd":"cd /repo && go test -mod=mod -json -vet=off -count=1 -timeout 25m ./...",
              "source_commits":[], "add_only":True},
     "engines":[{"name":"verifsim","path":"/verif/check","serves_properties":DONE,
                 "kind_free_text":"deterministic simulation with fault injection: source-level instrumenter (go/packages), simrt runtime (seeded scheduler, simulated sync.Pool / map order / clock, step budget), plan = pure description of a run, delta-debugging shrinker, fresh-process replay, determinism self-test in every batch"}],
     "checks":[],
     "notes":"See DESIGN.md. Exit codes of every check: 0 held (KNOWN-FINDING lines possible), 1 VIOLATION, 2 infrastructure trouble. VERIF_SEED selects the batch seed; replay files are complete plans (./check --replay <file>).",
     "not_applicable":[]
    }
    for pid in sorted(CHECKS):
        if pid not in DONE: continue
        c = CHECKS[pid]
        m["checks"].append({
          "property_id": pid,
          "quick_cmd": f"./check {pid} quick",
          "thorough_cmd": f"./check {pid} thorough",
          "evidence_file": f"/verif/evidence/{pid}.json",
          "replay_cmd_template": "./check --replay {path}",
          "engine": "verifsim",
          "level_claimed": {"category":"exploration","text":c["text"],"design_ref":c["design"]},
          "level_note": c["note"],
          "technique": c["technique"],
        })
    for pid in sorted(list(NA)+[p for p in CHECKS if p not in DONE]):
        m["not_applicable"].append({"property_id":pid,"reason":NA.get(pid, PENDING)})
    json.dump(m, open("/verif/MANIFEST.json","w"), indent=1)
    print("wrote MANIFEST.json with checks:", [c["property_id"] for c in m["checks"]])
main()
