#!/bin/bash
# tools/thorough_all.sh [seed]  - every registered check in the thorough tier, one after the other
cd "$(dirname "$0")/.."
export VERIF_SEED=${1:-1}
for id in $(python3 -c "import json; print(' '.join(c['property_id'] for c in json.load(open('MANIFEST.json'))['checks']))"); do
  s=$(date +%s); ./check $id thorough > thorough.$id.log 2>&1; code=$?
  echo "$id thorough seed=$VERIF_SEED exit=$code $(( $(date +%s) - s ))s :: $(grep -E '^verifsim: [0-9]' thorough.$id.log | cut -c1-220)"
  grep -E "^(VIOLATION|KNOWN-FINDING|INFRA)" thorough.$id.log
done
