#!/bin/bash
# tools/try_patch.sh <patch-file> <property> [tier] [--tests]
# Applies a patch to a scratch worktree of /repo HEAD (never to /repo), optionally runs the
# repository's own suite there, then runs ./check <property> against it. Prints the check's exit code.
P=$(readlink -f "$1"); PROP=$2; TIER=${3:-quick}
export GOFLAGS=-mod=mod GOPROXY=off GOSUMDB=off GOTOOLCHAIN=local
WT=$(mktemp -d /var/tmp/wt.XXXXXX); OUT=$(mktemp -d /var/tmp/out.XXXXXX)
trap 'git -C /repo worktree remove --force "$WT" >/dev/null 2>&1; rm -rf "$WT" "$OUT"' EXIT
git -C /repo worktree add -q --detach "$WT" HEAD || exit 2
git -C "$WT" apply "$P" || { echo "PATCH-DOES-NOT-APPLY"; exit 2; }
if [ "$4" = "--tests" ]; then
  (cd "$WT" && go build ./... && go test -vet=off -count=1 ./... 2>&1 | grep -v "no test files" | grep -v "^ok" ) && echo "TESTS: see above"
  (cd "$WT" && go test -vet=off -count=1 ./... >/dev/null 2>&1) && echo "TESTS-PASS" || echo "TESTS-FAIL"
fi
cd /verif && VERIF_REPO="$WT" VERIF_OUT="$OUT" ./check "$PROP" "$TIER" > "$OUT/log" 2>&1
code=$?
grep -E "^(VIOLATION|KNOWN-FINDING|INFRA|verifsim:)|class=" "$OUT/log" | head -12
echo "CHECK-EXIT=$code"
