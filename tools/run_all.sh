#!/bin/bash
# tools/run_all.sh [quick|thorough]  - run every registered check on /repo, print exit codes
cd /verif
tier=${1:-quick}
for id in $(python3 -c "import json; print(' '.join(c['property_id'] for c in json.load(open('MANIFEST.json'))['checks']))"); do
  s=$(date +%s)
  ./check $id $tier > /tmp/run_all.$id.log 2>&1; code=$?
  echo "$id exit=$code $(( $(date +%s) - s ))s :: $(grep -E '^verifsim: [0-9]' /tmp/run_all.$id.log | cut -c1-150)"
  grep -E "^(VIOLATION|KNOWN-FINDING|INFRA)" /tmp/run_all.$id.log
done
python3-vt - <<'PY'
import json,jsonschema,glob
sch=json.load(open('/root/.vp/EVIDENCE.schema.json'))
for f in sorted(glob.glob('/verif/evidence/*.json')):
    jsonschema.validate(json.load(open(f)), sch)
jsonschema.validate(json.load(open('/verif/MANIFEST.json')), json.load(open('/root/.vp/MANIFEST.schema.json')))
print("schemas ok")
PY
