#!/usr/bin/env python3
"""Regenerates the table of DESIGN.md §13 from seeded/*/meta.json + seeded/needs.json, and writes the
mechanism / needs_to_manifest texts into each meta.json."""
import json,glob,re
needs=json.load(open('/verif/seeded/needs.json'))
rows=[]
for d in sorted(glob.glob('/verif/seeded/*/meta.json')):
    m=json.load(open(d)); n=m['seed']
    mech,need=needs.get(n,["",""])
    m['mechanism']=mech; m['needs_to_manifest']=need
    json.dump(m,open(d,'w'),indent=1)
    cls=[]
    for c in m['check_run']['violation_classes']:
        c=c.replace('class=','')
        a,_,b=c.partition(' key=')
        cls.append(a+' / '+b.split('(')[0][:60])
    cls=sorted(set(cls))[:2]
    code=m['check_run']['exit']
    caught='yes' if code==1 else ('exit 2 (infrastructure)' if code==2 else 'no (exit 0)')
    rows.append(f"| {n} | {mech} | {need} | {caught}: {'; '.join(cls)} |")
tab="\n".join(rows)
p='/verif/DESIGN.md'
s=open(p).read()
hdr="| seed | mechanism | needs to manifest | caught by the quick check |\n|---|---|---|---|\n"
i=s.index(hdr)+len(hdr)
j=s.index("\n\nWhat the misses taught")
s=s[:i]+tab+s[j:]
open(p,'w').write(s)
print(len(rows),"rows")
