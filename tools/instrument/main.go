// Command instrument installs the simulation seams on a scratch copy of
// GuanceCloud/platypus. It is type-aware (go/packages) and generic: it knows no
// file names or line numbers, so an edited tree is instrumented the same way.
//
//	R1 sync.Pool            -> simrt.Pool (named after the variable)
//	R2 for k, v := range m  -> simulator-chosen key order (m a map)
//	R3 time.Now()           -> simrt.Now()
//	R4 simrt.Step(site)     at every function entry and every for body
//	R5 (-stmt-yields)       simrt.Step(site) before every statement of every block
//	R7                      simrt.Sync(site) before every statement that performs a sync/atomic operation or calls a method of package sync (sync.Map ...)
//	R6 sync.Mutex/RWMutex/Once -> simrt.Mutex/RWMutex/Once (a blocking task parks and passes the turn)
//
// All rewrites are byte-range splices on the original source, so formatting,
// comments, //line and //go: directives stay where they were.
//
// Exit status: 0 ok, 2 on any trouble (never 1).
package main

import (
	"encoding/json"
	"flag"
	"fmt"
	"go/ast"
	"go/token"
	"go/types"
	"os"
	"path/filepath"
	"sort"
	"strings"

	"golang.org/x/tools/go/packages"
)

const simrtPath = "github.com/GuanceCloud/platypus/internal/simrt"

type edit struct {
	start, end int // byte offsets in the file; start==end is an insertion
	text       string
	prio       int // order among insertions at the same offset
}

type site struct {
	ID   int    `json:"id"`
	Kind string `json:"kind"`
	File string `json:"file"`
	Line int    `json:"line"`
	Func string `json:"func"`
	Note string `json:"note,omitempty"`
}

type report struct {
	Sites  []site         `json:"sites"`
	Counts map[string]int `json:"counts"`
	Files  int            `json:"files"`
}

var stmtYields bool

var (
	rep     = report{Counts: map[string]int{}}
	nextID  = 1
	rootDir string
)

func die(format string, a ...interface{}) {
	fmt.Fprintf(os.Stderr, "instrument: "+format+"\n", a...)
	os.Exit(2)
}

func newSite(kind string, fset *token.FileSet, pos token.Pos, fn, note string) int {
	p := fset.Position(pos)
	rel, _ := filepath.Rel(rootDir, p.Filename)
	id := nextID
	nextID++
	rep.Sites = append(rep.Sites, site{ID: id, Kind: kind, File: rel, Line: p.Line, Func: fn, Note: note})
	rep.Counts[kind]++
	return id
}

func main() {
	dir := flag.String("dir", "", "root of the scratch copy (module root)")
	out := flag.String("sites", "", "write the site table (JSON) here")
	flag.BoolVar(&stmtYields, "stmt-yields", false, "R5: also insert a yield point before every statement of every block (finer interleavings; the generated parser file is left at function/loop granularity)")
	flag.Parse()
	if *dir == "" {
		die("need -dir")
	}
	abs, err := filepath.Abs(*dir)
	if err != nil {
		die("%v", err)
	}
	rootDir = abs
	cfg := &packages.Config{
		Mode: packages.NeedName | packages.NeedFiles | packages.NeedCompiledGoFiles | packages.NeedSyntax |
			packages.NeedTypes | packages.NeedTypesInfo | packages.NeedImports | packages.NeedDeps,
		Dir:   abs,
		Tests: false,
	}
	pkgs, err := packages.Load(cfg, "./pkg/...", "./internal/...", "./cmd/...")
	if err != nil {
		die("load: %v", err)
	}
	if len(pkgs) == 0 {
		die("no packages")
	}
	sort.Slice(pkgs, func(i, j int) bool { return pkgs[i].PkgPath < pkgs[j].PkgPath })
	for _, p := range pkgs {
		if len(p.Errors) > 0 {
			for _, e := range p.Errors {
				fmt.Fprintln(os.Stderr, e)
			}
			die("package %s does not type-check", p.PkgPath)
		}
	}
	for _, p := range pkgs {
		if strings.HasPrefix(p.PkgPath, simrtPath) || strings.Contains(p.PkgPath, "/internal/verifsim") {
			continue
		}
		for i, f := range p.Syntax {
			fn := p.CompiledGoFiles[i]
			if !strings.HasPrefix(fn, abs) || strings.HasSuffix(fn, "_test.go") {
				continue
			}
			doFile(p, f, fn)
		}
	}
	if *out != "" {
		b, _ := json.MarshalIndent(rep, "", " ")
		if err := os.WriteFile(*out, b, 0o644); err != nil {
			die("%v", err)
		}
	}
	fmt.Printf("instrumented %d files: %v\n", rep.Files, rep.Counts)
}

func isPkgSel(info *types.Info, e ast.Expr, pkgPath, name string) bool {
	sel, ok := e.(*ast.SelectorExpr)
	if !ok || sel.Sel.Name != name {
		return false
	}
	id, ok := sel.X.(*ast.Ident)
	if !ok {
		return false
	}
	pn, ok := info.Uses[id].(*types.PkgName)
	return ok && pn.Imported().Path() == pkgPath
}

type fileCtx struct {
	p     *packages.Package
	f     *ast.File
	fset  *token.FileSet
	src   []byte
	tf    *token.File
	edits []edit
	// enclosing function name stack
	funcs []string
	// statements that got a synchronisation point (R7)
	syncStmt map[ast.Stmt]bool
}

func (c *fileCtx) off(p token.Pos) int { return c.tf.Offset(p) }
func (c *fileCtx) text(a, b token.Pos) string {
	return string(c.src[c.off(a):c.off(b)])
}
func (c *fileCtx) curFunc() string {
	if len(c.funcs) == 0 {
		return ""
	}
	return c.funcs[len(c.funcs)-1]
}

func doFile(p *packages.Package, f *ast.File, filename string) {
	src, err := os.ReadFile(filename)
	if err != nil {
		die("%v", err)
	}
	c := &fileCtx{p: p, f: f, fset: p.Fset, src: src, tf: p.Fset.File(f.Pos())}
	info := p.TypesInfo

	// pool variable names: composite literal / declared type -> qualified name
	poolNames := map[ast.Node]string{}
	for _, d := range f.Decls {
		gd, ok := d.(*ast.GenDecl)
		if !ok || gd.Tok != token.VAR {
			continue
		}
		for _, s := range gd.Specs {
			vs := s.(*ast.ValueSpec)
			for i, n := range vs.Names {
				name := p.Types.Name() + "." + n.Name
				if vs.Type != nil {
					poolNames[vs.Type] = name
				}
				if i < len(vs.Values) {
					poolNames[vs.Values[i]] = name
				}
			}
		}
	}

	var walk func(n ast.Node) bool
	walk = func(n ast.Node) bool {
		switch x := n.(type) {
		case *ast.FuncDecl:
			if x.Body == nil {
				return false
			}
			name := x.Name.Name
			if x.Recv != nil && len(x.Recv.List) > 0 {
				name = recvName(x.Recv.List[0].Type) + "." + name
			}
			name = p.Types.Name() + "." + name
			c.funcs = append(c.funcs, name)
			id := newSite("step_func", c.fset, x.Body.Lbrace, name, "")
			c.edits = append(c.edits, edit{start: c.off(x.Body.Lbrace) + 1, end: c.off(x.Body.Lbrace) + 1,
				text: fmt.Sprintf(" simrt.Step(%d);", id)})
			ast.Inspect(x.Body, walk)
			c.funcs = c.funcs[:len(c.funcs)-1]
			return false
		case *ast.FuncLit:
			name := c.curFunc() + ".func"
			c.funcs = append(c.funcs, name)
			id := newSite("step_func", c.fset, x.Body.Lbrace, name, "")
			c.edits = append(c.edits, edit{start: c.off(x.Body.Lbrace) + 1, end: c.off(x.Body.Lbrace) + 1,
				text: fmt.Sprintf(" simrt.Step(%d);", id)})
			ast.Inspect(x.Body, walk)
			c.funcs = c.funcs[:len(c.funcs)-1]
			return false
		case *ast.ForStmt:
			id := newSite("step_loop", c.fset, x.Body.Lbrace, c.curFunc(), "")
			c.edits = append(c.edits, edit{start: c.off(x.Body.Lbrace) + 1, end: c.off(x.Body.Lbrace) + 1,
				text: fmt.Sprintf(" simrt.Step(%d);", id)})
			return true
		case *ast.RangeStmt:
			tv, ok := info.Types[x.X]
			if ok {
				if _, isMap := tv.Type.Underlying().(*types.Map); isMap {
					c.rewriteMapRange(x)
					return true
				}
			}
			id := newSite("step_loop", c.fset, x.Body.Lbrace, c.curFunc(), "")
			c.edits = append(c.edits, edit{start: c.off(x.Body.Lbrace) + 1, end: c.off(x.Body.Lbrace) + 1,
				text: fmt.Sprintf(" simrt.Step(%d);", id)})
			return true
		case *ast.BlockStmt:
			c.stmtYields(x.List)
			return true
		case *ast.CaseClause:
			c.stmtYields(x.Body)
			return true
		case *ast.CommClause:
			c.stmtYields(x.Body)
			return true
		case *ast.CallExpr:
			if isPkgSel(info, x.Fun, "time", "Now") && len(x.Args) == 0 {
				newSite("clock", c.fset, x.Pos(), c.curFunc(), "")
				c.edits = append(c.edits, edit{start: c.off(x.Pos()), end: c.off(x.End()), text: "simrt.Now()"})
				return false
			}
			return true
		case *ast.CompositeLit:
			if x.Type != nil && isPkgSel(info, x.Type, "sync", "Pool") {
				name := poolNames[x]
				if name == "" {
					name = fmt.Sprintf("%s.pool@%d", p.Types.Name(), c.fset.Position(x.Pos()).Line)
				}
				newSite("pool", c.fset, x.Pos(), c.curFunc(), name)
				c.edits = append(c.edits, edit{start: c.off(x.Type.Pos()), end: c.off(x.Type.End()), text: "simrt.Pool"})
				c.edits = append(c.edits, edit{start: c.off(x.Lbrace) + 1, end: c.off(x.Lbrace) + 1,
					text: fmt.Sprintf("PoolName: %q, ", name)})
				for _, e := range x.Elts {
					ast.Inspect(e, walk)
				}
				return false
			}
			return true
		case *ast.SelectorExpr:
			// R6: intercepted synchronisation - a task that would block parks and passes the turn
			for _, name := range []string{"Mutex", "RWMutex", "Once"} {
				if isPkgSel(info, x, "sync", name) {
					rep.Counts["sync_"+name]++
					c.edits = append(c.edits, edit{start: c.off(x.Pos()), end: c.off(x.End()), text: "simrt." + name})
					return false
				}
			}
			if isPkgSel(info, x, "sync", "Pool") {
				// a type use outside a composite literal (var x sync.Pool, field, param)
				rep.Counts["pool_type_use"]++
				c.edits = append(c.edits, edit{start: c.off(x.Pos()), end: c.off(x.End()), text: "simrt.Pool"})
				return false
			}
			return true
		}
		return true
	}
	for _, d := range f.Decls {
		ast.Inspect(d, walk)
	}
	if len(c.edits) == 0 {
		return
	}

	// import + keep-alive for imports that may have lost their last use
	imp := fmt.Sprintf("; import simrt %q", simrtPath)
	c.edits = append(c.edits, edit{start: c.off(f.Name.End()), end: c.off(f.Name.End()), text: imp, prio: -1})
	tail := "\n"
	for _, is := range f.Imports {
		path := strings.Trim(is.Path.Value, `"`)
		local := ""
		if is.Name != nil {
			local = is.Name.Name
		}
		if local == "_" || local == "." {
			continue
		}
		switch path {
		case "time":
			if local == "" {
				local = "time"
			}
			tail += fmt.Sprintf("var _ %s.Duration\n", local)
		case "sync":
			if local == "" {
				local = "sync"
			}
			tail += fmt.Sprintf("var _ %s.Mutex\n", local)
		}
	}
	c.edits = append(c.edits, edit{start: len(src), end: len(src), text: tail})

	sort.SliceStable(c.edits, func(i, j int) bool {
		if c.edits[i].start != c.edits[j].start {
			return c.edits[i].start < c.edits[j].start
		}
		return c.edits[i].prio < c.edits[j].prio
	})
	var out []byte
	pos := 0
	for _, e := range c.edits {
		if e.start < pos {
			die("%s: overlapping rewrites at byte %d", filename, e.start)
		}
		out = append(out, src[pos:e.start]...)
		out = append(out, e.text...)
		pos = e.end
	}
	out = append(out, src[pos:]...)
	if err := os.WriteFile(filename, out, 0o644); err != nil {
		die("%v", err)
	}
	rep.Files++
}

// stmtYields (R5) inserts a yield point before every statement of a statement list except the
// first one of a function/loop body (R4 already put one there) and declarations of labels.
func (c *fileCtx) stmtYields(list []ast.Stmt) {
	c.syncPoints(list)
	if !stmtYields || strings.HasSuffix(c.fset.Position(c.f.Pos()).Filename, "gram_y.go") {
		return
	}
	for i, st := range list {
		if c.syncStmt[st] {
			continue // R7 put a synchronisation point (which is a yield point) there
		}
		if i == 0 {
			continue
		}
		switch st.(type) {
		case *ast.EmptyStmt, *ast.CaseClause, *ast.CommClause:
			continue
		}
		id := newSite("step_stmt", c.fset, st.Pos(), c.curFunc(), "")
		c.edits = append(c.edits, edit{start: c.off(st.Pos()), end: c.off(st.Pos()), text: fmt.Sprintf("simrt.Step(%d); ", id), prio: -2})
	}
}

// syncPoints (R7) inserts simrt.Sync(site) before every statement of a list that itself performs a
// sync/atomic operation (in its own expressions - not in nested blocks or function literals, whose
// statements are visited on their own).
func (c *fileCtx) syncPoints(list []ast.Stmt) {
	for _, st := range list {
		var parts []ast.Node
		switch x := st.(type) {
		case *ast.ExprStmt, *ast.AssignStmt, *ast.ReturnStmt, *ast.IncDecStmt, *ast.DeclStmt, *ast.SendStmt:
			parts = []ast.Node{st}
		case *ast.IfStmt:
			if x.Init != nil {
				parts = append(parts, x.Init)
			}
			parts = append(parts, x.Cond)
		case *ast.SwitchStmt:
			if x.Init != nil {
				parts = append(parts, x.Init)
			}
			if x.Tag != nil {
				parts = append(parts, x.Tag)
			}
		case *ast.ForStmt:
			if x.Init != nil {
				parts = append(parts, x.Init)
			}
		case *ast.RangeStmt:
			parts = append(parts, x.X)
		}
		found := false
		for _, pt := range parts {
			ast.Inspect(pt, func(n ast.Node) bool {
				if found {
					return false
				}
				switch y := n.(type) {
				case *ast.FuncLit:
					return false
				case *ast.CallExpr:
					if c.isAtomicCall(y) {
						found = true
						return false
					}
				}
				return true
			})
		}
		if !found {
			continue
		}
		if c.syncStmt == nil {
			c.syncStmt = map[ast.Stmt]bool{}
		}
		c.syncStmt[st] = true
		id := newSite("sync_point", c.fset, st.Pos(), c.curFunc(), "")
		c.edits = append(c.edits, edit{start: c.off(st.Pos()), end: c.off(st.Pos()), text: fmt.Sprintf("simrt.Sync(%d); ", id), prio: -2})
	}
}

func (c *fileCtx) isAtomicCall(call *ast.CallExpr) bool {
	var id *ast.Ident
	switch f := call.Fun.(type) {
	case *ast.SelectorExpr:
		id = f.Sel
	case *ast.Ident:
		id = f
	case *ast.IndexExpr: // explicit instantiation
		if se, ok := f.X.(*ast.SelectorExpr); ok {
			id = se.Sel
		}
	}
	if id == nil {
		return false
	}
	fn, ok := c.p.TypesInfo.Uses[id].(*types.Func)
	if !ok || fn.Pkg() == nil {
		return false
	}
	// sync/atomic, and what is left of package sync after R1/R6 (sync.Map methods above all)
	if fn.Pkg().Path() == "sync/atomic" {
		return true
	}
	if fn.Pkg().Path() != "sync" {
		return false
	}
	if sig, ok := fn.Type().(*types.Signature); ok && sig.Recv() != nil {
		t := sig.Recv().Type()
		if pt, ok := t.(*types.Pointer); ok {
			t = pt.Elem()
		}
		if nt, ok := t.(*types.Named); ok {
			switch nt.Obj().Name() {
			case "Mutex", "RWMutex", "Once", "Pool":
				return false // replaced by R1/R6; the simulated types mark their own synchronisation points
			}
		}
	}
	return true
}

func recvName(e ast.Expr) string {
	switch x := e.(type) {
	case *ast.StarExpr:
		return recvName(x.X)
	case *ast.Ident:
		return x.Name
	case *ast.IndexExpr:
		return recvName(x.X)
	case *ast.IndexListExpr:
		return recvName(x.X)
	}
	return "?"
}

// rewriteMapRange turns
//
//	for k, v := range m { body }
//
// into
//
//	for _, e__ := range simrt.Iter(site, m) { simrt.Step(site2); k := e__.K; v, ok__ := e__.M[k]; if !ok__ { continue }; _, _ = k, v; body }
//
// The key snapshot is taken once (m evaluated once, like Go does); a key
// deleted before it is reached is skipped, like Go does; keys inserted during
// the loop are not visited, which Go permits.
func (c *fileCtx) rewriteMapRange(x *ast.RangeStmt) {
	info := c.p.TypesInfo
	pos := c.fset.Position(x.Pos())
	bad := ""
	// refuse shapes whose semantics the rewrite could change
	ast.Inspect(x.Body, func(n ast.Node) bool {
		switch y := n.(type) {
		case *ast.LabeledStmt:
			bad = "label inside a map-range body"
		case *ast.BranchStmt:
			if y.Tok == token.GOTO {
				bad = "goto inside a map-range body"
			}
		case *ast.FuncLit:
			bad = "closure inside a map-range body (loop variable capture)"
		case *ast.UnaryExpr:
			if y.Op == token.AND {
				if id, ok := y.X.(*ast.Ident); ok {
					for _, kv := range []ast.Expr{x.Key, x.Value} {
						if kid, ok := kv.(*ast.Ident); ok && kid.Name == id.Name && info.ObjectOf(kid) == info.ObjectOf(id) {
							bad = "address of a map-range loop variable"
						}
					}
				}
			}
		case *ast.AssignStmt:
			// m[...] = ... on the ranged map (insertion during iteration)
			for _, l := range y.Lhs {
				if ix, ok := l.(*ast.IndexExpr); ok && sameExpr(c, ix.X, x.X) {
					// m[k] = ... with k the loop key updates an existing entry: not an insertion
					if x.Key != nil && sameExpr(c, ix.Index, x.Key) {
						continue
					}
					bad = "assignment into the ranged map inside its range body"
				}
			}
		}
		return true
	})
	// a `continue` label targeting this loop from an outer labeled statement is fine (still a for).
	if bad != "" {
		die("%s:%d: R2 refuses: %s", pos.Filename, pos.Line, bad)
	}
	mtext := c.text(x.X.Pos(), x.X.End())
	site := newSite("map_range", c.fset, x.Pos(), c.curFunc(), mtext)
	step := newSite("step_loop", c.fset, x.Body.Lbrace, c.curFunc(), "")
	var b strings.Builder
	fmt.Fprintf(&b, "for _, e__%d := range simrt.Iter(%d, %s) { simrt.Step(%d); ", site, site, mtext, step)
	ev := fmt.Sprintf("e__%d", site)
	keyName, valName := "", ""
	if x.Key != nil {
		keyName = c.text(x.Key.Pos(), x.Key.End())
	}
	if x.Value != nil {
		valName = c.text(x.Value.Pos(), x.Value.End())
	}
	asg := ":="
	if x.Tok == token.ASSIGN {
		asg = "="
	}
	blank := func(s string) bool { return s == "" || s == "_" }
	switch {
	case !blank(keyName) && !blank(valName):
		if asg == ":=" {
			fmt.Fprintf(&b, "%s := %s.K; %s, ok__%d := %s.M[%s.K]; if !ok__%d { continue }; _, _ = %s, %s; ",
				keyName, ev, valName, site, ev, ev, site, keyName, valName)
		} else {
			fmt.Fprintf(&b, "var ok__%d bool; %s = %s.K; %s, ok__%d = %s.M[%s.K]; if !ok__%d { continue }; ",
				site, keyName, ev, valName, site, ev, ev, site)
		}
	case !blank(keyName):
		if asg == ":=" {
			fmt.Fprintf(&b, "%s := %s.K; if _, ok__%d := %s.M[%s.K]; !ok__%d { continue }; _ = %s; ",
				keyName, ev, site, ev, ev, site, keyName)
		} else {
			fmt.Fprintf(&b, "%s = %s.K; if _, ok__%d := %s.M[%s.K]; !ok__%d { continue }; ",
				keyName, ev, site, ev, ev, site)
		}
	case !blank(valName):
		if asg == ":=" {
			fmt.Fprintf(&b, "%s, ok__%d := %s.M[%s.K]; if !ok__%d { continue }; _ = %s; ",
				valName, site, ev, ev, site, valName)
		} else {
			fmt.Fprintf(&b, "var ok__%d bool; %s, ok__%d = %s.M[%s.K]; if !ok__%d { continue }; ",
				site, valName, site, ev, ev, site)
		}
	default:
		fmt.Fprintf(&b, "if _, ok__%d := %s.M[%s.K]; !ok__%d { continue }; ", site, ev, ev, site)
	}
	c.edits = append(c.edits, edit{start: c.off(x.For), end: c.off(x.Body.Lbrace) + 1, text: b.String()})
}

func sameExpr(c *fileCtx, a, b ast.Expr) bool {
	return c.text(a.Pos(), a.End()) == c.text(b.Pos(), b.End())
}
