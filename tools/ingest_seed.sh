#!/bin/bash
# tools/ingest_seed.sh <seed-name e.g. C09-a> <property> <package-dir-of-demo-test | -> [tier]
# Confirms a seeded change in a fresh scratch worktree (applies, builds, suite passes, demo fails with / passes without),
# runs the property's check against it, and files it under /verif/seeded/<seed-name>/.
N=$1; PROP=$2; PKG=$3; TIER=${4:-quick}
SRC=/tmp/seed/$N.out
export GOFLAGS=-mod=mod GOPROXY=off GOSUMDB=off GOTOOLCHAIN=local
[ -f "$SRC/patch.diff" ] || { echo "no patch.diff"; exit 2; }
WT=$(mktemp -d /var/tmp/wt.XXXXXX)
trap 'git -C /repo worktree remove --force "$WT" >/dev/null 2>&1; rm -rf "$WT"' EXIT
git -C /repo worktree add -q --detach "$WT" HEAD || exit 2
demo=$(ls $SRC/*_verifdemo_test.go 2>/dev/null | head -1)
res_without="n/a"; res_with="n/a"
run_demo() { (cd "$WT/$PKG" && go test -vet=off -count=1 -run "${DEMO_RUN:-.}" . 2>&1 | tail -15); }
if [ -n "$demo" ] && [ "$PKG" != "-" ]; then
  cp "$demo" "$WT/$PKG/"
  echo "--- demo WITHOUT the change:"; run_demo > /tmp/ingest.without 2>&1; tail -3 /tmp/ingest.without
  grep -q "^ok" /tmp/ingest.without && res_without=pass || res_without=FAIL
fi
git -C "$WT" apply "$SRC/patch.diff" || { echo "PATCH-DOES-NOT-APPLY"; exit 2; }
(cd "$WT" && go build ./... ) && echo "BUILD-OK" || { echo "BUILD-FAIL"; exit 2; }
if [ -n "$demo" ] && [ "$PKG" != "-" ]; then
  echo "--- demo WITH the change:"; run_demo > /tmp/ingest.with 2>&1; tail -5 /tmp/ingest.with
  grep -q "^ok" /tmp/ingest.with && res_with=pass || res_with=FAIL
  rm -f "$WT/$PKG/$(basename $demo)"
fi
(cd "$WT" && go test -vet=off -count=1 ./... > /tmp/ingest.suite 2>&1) && suite=pass || suite=FAIL
echo "SUITE=$suite demo_without=$res_without demo_with=$res_with"
OUT=$(mktemp -d /var/tmp/out.XXXXXX)
(cd /verif && VERIF_REPO="$WT" VERIF_OUT="$OUT" ./check "$PROP" "$TIER" > "$OUT/log" 2>&1); code=$?
grep -E "^(VIOLATION|KNOWN-FINDING|INFRA|verifsim: [0-9])|class=" "$OUT/log" | head -8
echo "CHECK-EXIT=$code"
mkdir -p /verif/seeded/$N
cp "$SRC/patch.diff" /verif/seeded/$N/patch.diff
[ -n "$demo" ] && cp "$demo" /verif/seeded/$N/
[ -f "$SRC/notes.md" ] && cp "$SRC/notes.md" /verif/seeded/$N/notes.md
for f in $SRC/*.go; do case "$f" in *_verifdemo_test.go) ;; *) [ -f "$f" ] && cp "$f" /verif/seeded/$N/ ;; esac; done
classes=$(grep -E "class=" "$OUT/log" | sed 's/^ *//' | sort -u | head -5 | python3 -c "import sys,json; print(json.dumps([l.strip() for l in sys.stdin]))")
python3 - "$N" "$PROP" "$PKG" "$suite" "$res_without" "$res_with" "$code" "$classes" "$TIER" <<'PY'
import json,sys
n,prop,pkg,suite,wo,wi,code,classes,tier=sys.argv[1:]
meta={"seed":n,"breaks_property":prop,"demo_package_dir":pkg,
 "confirmed":{"applies_to":"/repo HEAD","builds":True,"existing_suite":suite,"demo_without_change":wo,"demo_with_change":wi},
 "check_run":{"command":f"VERIF_REPO=<worktree with patch> ./check {prop} {tier}","exit":int(code),"violation_classes":json.loads(classes)},
 "needs_to_manifest":"see notes.md"}
json.dump(meta,open(f"/verif/seeded/{n}/meta.json","w"),indent=1)
PY
rm -rf "$OUT"
