#!/bin/bash
# tools/reseed_all.sh [property ...]  - regression over the seeded changes and own mutants: every patch under
# seeded/ and mutants/ of the given properties (default: all) is applied to a scratch worktree and judged by the
# quick check of the current harness. Prints one line per patch: name, property, exit code (1 = caught, 0 = quiet).
# ok_* patches must stay quiet (exit 0), everything else must be caught (exit 1).
cd "$(dirname "$0")/.."
props=${@:-C09 C10 C13 C14 C15 C16 C20}
bad=0
for prop in $props; do
  for pt in seeded/$prop-*/patch.diff mutants/$prop/*.patch; do
    [ -f "$pt" ] || continue
    name=$(echo "$pt" | sed 's|seeded/||; s|/patch.diff||; s|mutants/||; s|.patch||')
    code=$(tools/try_patch.sh "$pt" $prop quick 2>&1 | sed -n 's/^CHECK-EXIT=//p')
    want=1; case "$name" in */ok_*) want=0;; C09-w6) want=0;; esac
    flag=""; [ "$code" != "$want" ] && { flag="  <-- UNEXPECTED"; bad=1; }
    echo "$name $prop exit=$code$flag"
  done
done
exit $bad
